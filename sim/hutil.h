// Harness utilities shared by the in-process simulation harnesses (C29, C30, C52):
// workload PRNG, a tiny JSON reader/writer, the batch/replay main loop and the result-line protocol
// spoken to lib/orch.py.
#pragma once
#include <cstdint>
#include <cstdio>
#include <cstdlib>
#include <cstring>
#include <map>
#include <memory>
#include <set>
#include <string>
#include <vector>
#include <unistd.h>
#include "vsim.h"

namespace hu {

struct Rng {
  uint64_t s;
  explicit Rng(uint64_t seed) : s(seed * 0x9E3779B97F4A7C15ull + 0x1234567ull) { next(); next(); }
  uint64_t next() { uint64_t z = (s += 0x9E3779B97F4A7C15ull); z = (z ^ (z >> 30)) * 0xBF58476D1CE4E5B9ull; z = (z ^ (z >> 27)) * 0x94D049BB133111EBull; return z ^ (z >> 31); }
  long range(long lo, long hi) { return lo + long(next() % uint64_t(hi - lo + 1)); }  // inclusive
  bool chance(int num, int den) { return long(next() % uint64_t(den)) < num; }
};

// ------------------------------------------------------------------ tiny JSON value
struct J {
  enum T { NUL, NUM, STR, ARR, OBJ } t = NUL;
  long long num = 0; std::string str; std::vector<J> arr; std::vector<std::pair<std::string, J>> obj;
  const J* get(const char* k) const { for (auto& kv : obj) if (kv.first == k) return &kv.second; return nullptr; }
  long long geti(const char* k, long long d = 0) const { auto p = get(k); return (p && p->t == NUM) ? p->num : d; }
  std::string gets(const char* k, const char* d = "") const { auto p = get(k); return (p && p->t == STR) ? p->str : d; }
};
struct JParser {
  const char* p; explicit JParser(const char* s) : p(s) {}
  void ws() { while (*p == ' ' || *p == '\n' || *p == '\t' || *p == '\r') ++p; }
  J parse() {
    ws(); J j;
    if (*p == '{') { j.t = J::OBJ; ++p; ws(); if (*p == '}') { ++p; return j; } for (;;) { ws(); J k = parse(); ws(); if (*p == ':') ++p; J v = parse(); j.obj.emplace_back(k.str, v); ws(); if (*p == ',') { ++p; continue; } if (*p == '}') ++p; break; } return j; }
    if (*p == '[') { j.t = J::ARR; ++p; ws(); if (*p == ']') { ++p; return j; } for (;;) { j.arr.push_back(parse()); ws(); if (*p == ',') { ++p; continue; } if (*p == ']') ++p; break; } return j; }
    if (*p == '"') { j.t = J::STR; ++p; while (*p && *p != '"') { if (*p == '\\' && p[1]) { ++p; char c = *p; j.str += (c == 'n' ? '\n' : c == 't' ? '\t' : c); } else j.str += *p; ++p; } if (*p) ++p; return j; }
    if (*p == '-' || (*p >= '0' && *p <= '9')) { j.t = J::NUM; char* e; j.num = strtoll(p, &e, 10); if (*e == '.' || *e == 'e' || *e == 'E') { strtod(p, &e); } p = e; return j; }
    if (!strncmp(p, "true", 4)) { j.t = J::NUM; j.num = 1; p += 4; return j; }
    if (!strncmp(p, "false", 5)) { j.t = J::NUM; j.num = 0; p += 5; return j; }
    if (!strncmp(p, "null", 4)) { p += 4; return j; }
    if (*p) ++p;
    return j;
  }
};
inline J parse_file(const char* path) {
  FILE* f = fopen(path, "rb"); if (!f) { fprintf(stderr, "cannot open %s\n", path); exit(2); }
  std::string s; char buf[65536]; size_t n; while ((n = fread(buf, 1, sizeof buf, f)) > 0) s.append(buf, n); fclose(f);
  JParser ps(s.c_str()); return ps.parse();
}
inline std::string jesc(const std::string& s) {
  std::string o; for (unsigned char c : s) { if (c == '"' || c == '\\') { o += '\\'; o += char(c); } else if (c == '\n') o += "\\n"; else if (c < 0x20) o += ' '; else if (c >= 0x7f) o += '?'; else o += char(c); } return o;   // never anything but printable ASCII: garbage bytes (a dangling string) must not break the protocol
}

// ------------------------------------------------------------------ plan = what one simulated run does
// params: run-level integers (harness specific); ops: workload operations, each a short int tuple;
// faults: explicit fault entries [kind, a, b].  All three are written to the replay file and are what the
// minimiser shrinks; a harness must accept any sub-list of ops/faults and any smaller params.
struct Plan {
  std::vector<long> params;
  std::vector<std::vector<long>> ops;
  std::vector<std::vector<long>> faults;
};
inline std::string ilist(const std::vector<long>& v) { std::string s = "["; for (size_t i = 0; i < v.size(); ++i) { if (i) s += ','; s += std::to_string(v[i]); } return s + "]"; }
inline std::string illist(const std::vector<std::vector<long>>& v) { std::string s = "["; for (size_t i = 0; i < v.size(); ++i) { if (i) s += ','; s += ilist(v[i]); } return s + "]"; }
inline std::string plan_json(const Plan& p) { return "{\"params\":" + ilist(p.params) + ",\"ops\":" + illist(p.ops) + ",\"faults\":" + illist(p.faults) + "}"; }
inline std::vector<long> jl(const J* j) { std::vector<long> v; if (j) for (auto& e : j->arr) v.push_back(long(e.num)); return v; }
inline std::vector<std::vector<long>> jll(const J* j) { std::vector<std::vector<long>> v; if (j) for (auto& e : j->arr) v.push_back(jl(&e)); return v; }
inline Plan plan_from(const J& j) { Plan p; p.params = jl(j.get("params")); p.ops = jll(j.get("ops")); p.faults = jll(j.get("faults")); return p; }

struct Outcome {
  std::string cls = "ok";     // "ok" or a violation class (invariant id)
  std::string detail;
  std::vector<uint64_t> abstract_states;   // abstract states visited (harness specific encoding)
  std::map<std::string, long> probes;      // rare-branch probes hit in this run
};

struct Harness {
  virtual ~Harness() {}
  virtual const char* property() const = 0;
  virtual Plan generate(uint64_t seed, int tier, vsim::Config& cfg) = 0;   // also fills cfg.strategy etc.
  virtual std::string describe(const Plan&) = 0;                           // human-readable form for samples
  virtual Outcome run(const Plan&, const vsim::Config& cfg) = 0;           // begin()..end() inside
  virtual void warm(long) {}                                               // in-process history before the runs (long-lived process)
  virtual bool first_use_run() { return false; }                           // true: one unreported run is executed first in every process, so that one-off
                                                                           // initialisations (singletons, first insertions) never fall into a counted run
};

// ------------------------------------------------------------------ per-run context for the fatal path
struct RunCtx { uint64_t seed = 0; Plan plan; vsim::Config cfg; const char* variant = ""; Harness* h = nullptr; bool replaying = false; };
inline RunCtx& ctx() { static RunCtx c; return c; }

inline std::string cfg_json(const vsim::Config& c) {
  return "{\"seed\":" + std::to_string(c.seed) + ",\"strategy\":" + std::to_string(c.strategy) + ",\"starve_thread\":" + std::to_string(c.starve_thread) +
         ",\"sticky_num\":" + std::to_string(c.sticky_num) + ",\"sig_linux_bias\":" + std::to_string(c.sig_linux_bias) + ",\"max_steps\":" + std::to_string(c.max_steps) + ",\"pid_recycle\":" + std::to_string(c.pid_recycle) + ",\"alloc_rate\":" + std::to_string(c.alloc_rate) + ",\"alloc_phase\":" + std::to_string(c.alloc_phase) + ",\"sigchld_ignored\":" + std::to_string(c.sigchld_ignored) + "}";
}
inline void cfg_from(const J& j, vsim::Config& c) {
  c.seed = uint64_t(j.geti("seed", 1)); c.strategy = int(j.geti("strategy")); c.starve_thread = int(j.geti("starve_thread", -1));
  c.sticky_num = int(j.geti("sticky_num", 3)); c.sig_linux_bias = int(j.geti("sig_linux_bias")); c.max_steps = long(j.geti("max_steps", 200000)); c.pid_recycle = int(j.geti("pid_recycle")); c.alloc_rate = int(j.geti("alloc_rate")); c.alloc_phase = int(j.geti("alloc_phase")); c.sigchld_ignored = int(j.geti("sigchld_ignored"));
}

// result lines go to a private duplicate of the original stdout: the code under test may redirect or close fd 1
inline FILE*& outf() { static FILE* f = stdout; return f; }

inline void emit_result(const std::string& cls, const std::string& detail, const Outcome* o) {
  auto& c = ctx();
  std::string s = "{\"seed\":" + std::to_string(c.seed) + ",\"cls\":\"" + jesc(cls) + "\"";
  char hb[64]; snprintf(hb, sizeof hb, "%016llx", (unsigned long long)vsim::hash()); s += ",\"hash\":\"" + std::string(hb) + "\"";
  snprintf(hb, sizeof hb, "%016llx", (unsigned long long)vsim::schedule_hash()); s += ",\"shash\":\"" + std::string(hb) + "\"";
  s += ",\"steps\":" + std::to_string(vsim::nsteps()) + ",\"threads\":" + std::to_string(vsim::nthreads()) + ",\"events\":" + std::to_string(vsim::seq());
  s += ",\"ctr\":{"; bool first = true;
  for (auto& kv : vsim::counters()) { if (!first) s += ','; first = false; s += "\"" + kv.first + "\":" + std::to_string(kv.second); }
  if (o) for (auto& kv : o->probes) { if (!first) s += ','; first = false; s += "\"" + kv.first + "\":" + std::to_string(kv.second); }
  s += "}";
  if (o) { s += ",\"abs\":["; for (size_t i = 0; i < o->abstract_states.size(); ++i) { if (i) s += ','; s += std::to_string(o->abstract_states[i]); } s += "]"; }
  bool want_plan = cls != "ok" || (c.seed % 97) == 0 || c.replaying;
  if (cls != "ok") s += ",\"detail\":\"" + jesc(detail) + "\"";
  if (want_plan) {
    s += ",\"variant\":\"" + std::string(c.variant) + "\",\"plan\":" + plan_json(c.plan) + ",\"cfg\":" + cfg_json(c.cfg) + ",\"text\":\"" + jesc(c.h->describe(c.plan)) + "\"";
  }
  if (cls != "ok") {
    auto& d = vsim::decisions(); s += ",\"decisions\":["; for (size_t i = 0; i < d.size(); ++i) { if (i) s += ','; s += std::to_string(d[i]); } s += "]";
  }
  s += "}\n";
  fputs(s.c_str(), outf()); fflush(outf());
}
inline void fatal_cb(const char* cls, const char* detail) { emit_result(cls, detail, nullptr); _exit(10); }
extern "C" void __sanitizer_set_death_callback(void (*)(void)) __attribute__((weak));
inline void sanitizer_death() { if (vsim::active()) emit_result("memory-error", "sanitizer report (see stderr)", nullptr); }

// usage:  harness --seeds FIRST COUNT STRIDE --tier T --variant V      (batch; one JSON line per run)
//         harness --replay FILE                                        (one run from a replay file)
inline int harness_main(int argc, char** argv, Harness& h) {
  { int d = dup(1); if (d >= 0) { FILE* f = fdopen(d, "w"); if (f) outf() = f; } }
  vsim::set_fatal_callback(fatal_cb);
  if (&__sanitizer_set_death_callback) __sanitizer_set_death_callback(sanitizer_death);
  uint64_t first = 1, count = 1, stride = 1; int tier = 0; const char* variant = ""; const char* replay = nullptr; long warm = 0; bool plan_only = false;
  for (int i = 1; i < argc; ++i) {
    if (!strcmp(argv[i], "--seeds") && i + 3 < argc) { first = strtoull(argv[i + 1], 0, 10); count = strtoull(argv[i + 2], 0, 10); stride = strtoull(argv[i + 3], 0, 10); i += 3; }
    else if (!strcmp(argv[i], "--tier") && i + 1 < argc) tier = atoi(argv[++i]);
    else if (!strcmp(argv[i], "--variant") && i + 1 < argc) variant = argv[++i];
    else if (!strcmp(argv[i], "--replay") && i + 1 < argc) replay = argv[++i];
    else if (!strcmp(argv[i], "--warm") && i + 1 < argc) warm = atol(argv[++i]);
    else if (!strcmp(argv[i], "--plan-only")) plan_only = true;
  }
  auto& c = ctx(); c.h = &h; c.variant = variant;
  if (warm > 0) h.warm(warm);
  if (h.first_use_run() && !plan_only) { vsim::Config wc; wc.seed = 424242; Plan wp = h.generate(424242, 0, wc); wc.faults.clear(); for (auto& f : wp.faults) if (f.size() >= 3) wc.faults.push_back({int(f[0]), f[1], f[2]}); wc.alloc_rate = 0; c.seed = 424242; c.plan = wp; c.cfg = wc; c.replaying = true; Outcome wo = h.run(wp, wc); if (wo.cls != "ok") { emit_result(wo.cls, wo.detail, &wo); return 0; } c.replaying = false; }   // a violation in the first-use run is reported under its own seed (424242): the orchestrator stops the worker there
  if (replay) {
    J j = parse_file(replay);
    c.seed = uint64_t(j.geti("seed")); c.plan = plan_from(*j.get("plan")); c.cfg = vsim::Config{}; if (j.get("cfg")) cfg_from(*j.get("cfg"), c.cfg);
    c.replaying = true;
    if (j.get("decisions")) { c.cfg.replay = true; for (auto& e : j.get("decisions")->arr) c.cfg.decisions.push_back(uint32_t(e.num)); }
    for (auto& f : c.plan.faults) if (f.size() >= 3) c.cfg.faults.push_back({int(f[0]), f[1], f[2]});
    Outcome o = h.run(c.plan, c.cfg);
    emit_result(o.cls, o.detail, &o);
    return 0;
  }
  for (uint64_t k = 0; k < count; ++k) {
    c.seed = first + k * stride; c.cfg = vsim::Config{}; c.cfg.seed = c.seed;
    c.plan = h.generate(c.seed, tier, c.cfg);
    c.cfg.faults.clear(); for (auto& f : c.plan.faults) if (f.size() >= 3) c.cfg.faults.push_back({int(f[0]), f[1], f[2]});
    if (plan_only) {   // print the plan of this seed without running it (used to make a run that never returned replayable)
      fprintf(outf(), "{\"seed\":%llu,\"cls\":\"plan\",\"variant\":\"%s\",\"plan\":%s,\"cfg\":%s,\"text\":\"%s\"}\n", (unsigned long long)c.seed, variant, plan_json(c.plan).c_str(), cfg_json(c.cfg).c_str(), jesc(h.describe(c.plan)).c_str());
      continue;
    }
    Outcome o = h.run(c.plan, c.cfg);
    emit_result(o.cls, o.detail, &o);
  }
  return 0;
}

}  // namespace hu
