// vsim — deterministic simulator core. See vsim.h and /verif/DESIGN.md §2.1.
// Compiled twice: plain (threads only) and with -DVSIM_PROC (adds the simulated process
// table, pipes and signals; needs -Wl,--wrap=... on the link line of the harness).
#include <pthread.h>
#include <semaphore.h>
#include <signal.h>
#include <sys/wait.h>
#include <unistd.h>
#include <fcntl.h>
#include <sys/uio.h>
#include <poll.h>
#include <sys/syscall.h>
#include <dlfcn.h>
#include <cxxabi.h>
#include <execinfo.h>
#include <cstdarg>
#include <cstdio>
#include <cstdlib>
#include <cstring>
#include <cerrno>
#include <algorithm>
#include <map>
#include <string>
#include <vector>
#include "vsim.h"

namespace {
using vsim::Event;

enum { RUN = 0, B_MUTEX, B_COND, B_JOIN, B_WAITPID, B_READ, FIN };
const char* state_name(int s) {
  static const char* n[] = {"runnable", "blocked-on-mutex", "waiting-on-condvar", "joining", "in-waitpid", "in-read", "finished"};
  return n[s];
}

struct Th;
// A carrier is a real pthread that is kept alive and re-used for successive simulated threads (creating real
// threads is by far the most expensive operation under ASan, and does not scale across worker processes).
struct Carrier { pthread_t real{}; sem_t sem; Th* th = nullptr; bool idle = false; uintptr_t stk_lo = 0, stk_hi = 0; };
std::vector<Carrier*> carriers;

struct Th {
  int id = 0;
  Carrier* car = nullptr;
  bool joined = false;
  void* retval = nullptr;
  int state = RUN;
  const void* obj = nullptr;   // mutex or condvar waited for
  const void* mtx = nullptr;   // mutex to re-acquire after a cond wait
  int join_target = -1;
  bool woken = false;
  std::vector<uint32_t> vc;    // vector clock (happens-before tracking for the shared-access hook)
  const void* cw = nullptr;    // condition variable this thread is waiting on (stays set while a signal handler runs on top of the wait)
  long spur_step = -1;         // planned spurious wake-up (global step) of the current cond wait
  void* (*fn)(void*) = nullptr;
  void* arg = nullptr;
  pthread_t real{};
  long prio = 0;
  int ign = 0;                 // race detection (VSIM_RACE): accesses of this thread are not monitored while non-zero (harness code)
#ifdef VSIM_PROC
  uint64_t sigmask = 0;
  bool deliver = false;
  int wait_pid = 0;
  int wait_opt = 0;
  int read_fd = -1;
  int in_handler = 0;
  int in_alloc = 0;            // the thread is inside the memory allocator (an allocation chosen as a scheduling point)
  int h_in_alloc = 0;          // ... and was so when the signal handler now running on its stack started
  vsim::Fate next_fate;
  std::vector<int> recent_pipes;
  int last_out_fd = -1;
  std::string last_out_path;
#endif
};

struct Xoshiro {
  uint64_t s[4];
  static uint64_t splitmix(uint64_t& x) { uint64_t z = (x += 0x9E3779B97F4A7C15ull); z = (z ^ (z >> 30)) * 0xBF58476D1CE4E5B9ull; z = (z ^ (z >> 27)) * 0x94D049BB133111EBull; return z ^ (z >> 31); }
  void seed(uint64_t x) { for (auto& v : s) v = splitmix(x); }
  static uint64_t rotl(uint64_t x, int k) { return (x << k) | (x >> (64 - k)); }
  uint64_t next() { uint64_t r = rotl(s[1] * 5, 7) * 9, t = s[1] << 17; s[2] ^= s[0]; s[3] ^= s[1]; s[1] ^= s[2]; s[0] ^= s[3]; s[2] ^= t; s[3] = rotl(s[3], 45); return r; }
};

// ---- all simulator state (only ever touched by the one thread that holds the baton)
std::vector<Th*> ths;
thread_local Th* self = nullptr;
bool g_active = false;
vsim::Config cfg;
Xoshiro rng;
size_t replay_pos = 0;
long steps = 0;
uint64_t g_seq = 0;
uint64_t hashv = 0, shash = 0;
std::vector<Event> evlog;
std::vector<uint32_t> decs;
std::map<const void*, int> mowner;
std::map<const void*, int> mdepth;   // extra acquisitions of recursive mutexes
// ---- happens-before race detection for accesses reported through tfel_verif_shared_access (guarded hook in /repo)
std::map<const void*, std::vector<uint32_t>> mclock;   // clock published by the last release of each mutex
struct Shadow { int wtid = -1; uint32_t wclk = 0; std::map<int, uint32_t> reads; };
std::map<const void*, Shadow> shadow;
void vc_join(std::vector<uint32_t>& a, const std::vector<uint32_t>& b) { if (a.size() < b.size()) a.resize(b.size(), 0); for (size_t i = 0; i < b.size(); ++i) if (b[i] > a[i]) a[i] = b[i]; }
uint32_t vc_get(const std::vector<uint32_t>& a, int i) { return size_t(i) < a.size() ? a[size_t(i)] : 0; }
void vc_tick(Th* t) { if (t->vc.size() <= size_t(t->id)) t->vc.resize(size_t(t->id) + 1, 0); t->vc[size_t(t->id)]++; }
bool is_recursive(pthread_mutex_t* m) { return (m->__data.__kind & 3) == PTHREAD_MUTEX_RECURSIVE_NP; }   // glibc layout
std::vector<std::pair<std::string, long>> ctrs;
vsim::fatal_cb on_fatal = nullptr;
long cond_wait_calls = 0;
long alloc_calls = 0;
bool g_child_mode = false;   // this process is the real forked copy that runs the child side of createProcess after an exec failure
int g_child_report_fd = -1;
int last_run_tid = 0;

void fnv(uint64_t& h, uint64_t x) { for (int i = 0; i < 8; ++i) { h = (h ^ ((x >> (8 * i)) & 0xff)) * 1099511628211ull; } }

void race_begin(); void race_end(); void race_thread_start(Carrier*);

template <class F> F real(const char* n) { return reinterpret_cast<F>(dlsym(RTLD_NEXT, n)); }
sem_t main_sem;
sem_t* semof(Th* t) { return t->car ? &t->car->sem : &main_sem; }
void park(Th* t) { sem_t* s = semof(t); while (sem_wait(s) == -1 && errno == EINTR) {} }

// real forked copy (child side of an exec failure): tell the simulator in the parent what happened and leave at once
[[noreturn]] void child_report(const std::string& what) {
  std::string m = what + "\n"; if (g_child_report_fd >= 0) { ssize_t w = syscall(SYS_write, g_child_report_fd, m.data(), m.size()); (void)w; }
  _exit(98);
}
void fatal(const char* cls, const std::string& detail) {
  if (g_child_mode) child_report(std::string("FATAL ") + cls + ": " + detail);
  if (on_fatal) on_fatal(cls, detail.c_str());
  fprintf(stderr, "vsim fatal %s: %s\n", cls, detail.c_str());
  _exit(3);
}

uint32_t record(uint32_t idx, uint32_t n, int kind) {
  decs.push_back(idx);
  fnv(hashv, (uint64_t(kind) << 56) ^ (uint64_t(n) << 32) ^ idx);
  return idx;
}
// decision: replay -> recorded value modulo n (exhausted -> 0); otherwise 'proposal' (already in [0,n))
uint32_t decide(uint32_t n, int kind, uint32_t proposal) {
  if (n == 0) return 0;
  uint32_t idx;
  if (cfg.replay) { idx = replay_pos < cfg.decisions.size() ? cfg.decisions[replay_pos] % n : 0; ++replay_pos; }
  else idx = proposal % n;
  return record(idx, n, kind);
}

#ifdef VSIM_PROC
struct Pipe { std::string buf; int writers = 0; int readers = 0; };
struct Child {
  int pid = 0; int state = 0; /*0 waiting for OK, 1 ready to exec, 2 running, 3 zombie, 4 reaped*/
  vsim::Fate fate; long age = 0; int cfd_r = -1; int ffd_w = -1; int parent_thread = 0; int status = 0; int out_fd = -1; bool reusable = false;
  bool stopped = false; bool stop_reported = false;   // job control: stopped by a signal, and whether a WUNTRACED waitpid has already reported it
  bool real_done = false; bool hung = false; int real_status = 0; std::string real_note;   // outcome of the real forked copy that ran the child side of an exec failure
};
struct FdEnt { int pipe; bool wr; };
std::map<int, Pipe> pipes; std::map<int, FdEnt> fds; std::map<int, Child> children;
int next_fd = 10000, next_pipe = 1, next_pid = 5000;
bool sig_pending_proc = false;   // SIGCHLD pending at process level (every thread blocks it)
struct sigaction handlers[65];
vsim::fate_provider fate_prov = nullptr;
const uint64_t CHLD_BIT = 1ull << SIGCHLD;
extern "C" { int __real_pipe(int*); pid_t __real_fork(void); ssize_t __real_write(int, const void*, size_t); ssize_t __real_read(int, void*, size_t);
  int __real_close(int); pid_t __real_waitpid(pid_t, int*, int); int __real_kill(pid_t, int); int __real_sigaction(int, const struct sigaction*, struct sigaction*);
  int __real_sigprocmask(int, const sigset_t*, sigset_t*); int __real_open(const char*, int, ...); int __real_open64(const char*, int, ...); }

bool handler_installed() { auto h = handlers[SIGCHLD].sa_handler; return h != SIG_DFL && h != SIG_IGN && h != nullptr; }
bool can_take_signal(Th* t) { return t->state != FIN && !(t->sigmask & CHLD_BIT); }
void close_fd(int fd) {
  auto it = fds.find(fd); if (it == fds.end()) return;
  auto& p = pipes[it->second.pipe]; if (it->second.wr) p.writers--; else p.readers--; fds.erase(it);
}
void raise_sigchld(int forking_thread) {
  if (!handler_installed()) return;
  std::vector<Th*> el; for (auto t : ths) if (can_take_signal(t)) el.push_back(t);
  if (el.empty()) { if (sig_pending_proc) vsim::count("sigchld_coalesced"); sig_pending_proc = true; vsim::count("sigchld_pending_all_blocked"); return; }
  Th* target = nullptr;
  uint32_t prop = uint32_t(rng.next() % el.size());
  if (cfg.sig_linux_bias && forking_thread >= 0) for (size_t i = 0; i < el.size(); ++i) if (el[i]->id == forking_thread) prop = uint32_t(i);
  target = el[decide(uint32_t(el.size()), vsim::D_SIGTARGET, prop)];
  if (target->deliver) vsim::count("sigchld_coalesced");
  target->deliver = true;
  vsim::count("sigchld_sent");
  if (target->id != forking_thread) vsim::count("sigchld_to_other_thread");
  if (target->state == B_MUTEX || target->state == B_COND || target->state == B_JOIN) vsim::count("sigchld_to_blocked_thread");
  for (auto& kv : mowner) if (kv.second == target->id) { vsim::count("sigchld_to_lock_holder"); break; }
}
void child_zombie(Child& c) {
  c.state = 3;
  if (handlers[SIGCHLD].sa_handler == SIG_IGN || (handlers[SIGCHLD].sa_flags & SA_NOCLDWAIT)) {
    // POSIX: while SIGCHLD is ignored, terminated children are not turned into zombies: nothing is left for waitpid, which fails with ECHILD
    c.state = 4; c.reusable = true;
    if (c.out_fd >= 0) { __real_close(c.out_fd); c.out_fd = -1; }
    vsim::count("child_discarded_while_sigchld_ignored"); vsim::event(100, c.pid, -1);
    return;
  }
  if (c.fate.kind == 0) c.status = (c.fate.value & 0xff) << 8; else if (c.fate.kind == 1) c.status = c.fate.value & 0x7f; else c.status = (1 << 8);
  if (c.out_fd >= 0) { __real_close(c.out_fd); c.out_fd = -1; }
  vsim::count("child_exit");
  vsim::event(100, c.pid, c.status);
  raise_sigchld(c.parent_thread);
}
bool wait_ready(Th* t) {
  if (t->wait_pid > 0) { auto it = children.find(t->wait_pid); return it == children.end() || it->second.state >= 3 || ((t->wait_opt & WUNTRACED) && it->second.stopped && !it->second.stop_reported); }
  bool any = false; for (auto& kv : children) { if (kv.second.state == 3) return true; if (kv.second.state < 3) any = true; }
  return !any;
}
#endif

bool cond_ok(Th* t) {
  switch (t->state) {
    case RUN: return true;
    case B_MUTEX: return !mowner.count(t->obj);
    case B_COND: return t->woken && !mowner.count(t->mtx);
    case B_JOIN: return ths[t->join_target]->state == FIN;
#ifdef VSIM_PROC
    case B_WAITPID: return wait_ready(t);
    case B_READ: { auto it = fds.find(t->read_fd); if (it == fds.end()) return true; auto& p = pipes[it->second.pipe]; return !p.buf.empty() || p.writers == 0; }
#endif
    default: return false;
  }
}
bool schedulable(Th* t) {
  if (t->state == FIN) return false;
#ifdef VSIM_PROC
  if (t->deliver) return true;
#endif
  return cond_ok(t);
}

struct Cand { int kind; int a; };

void apply_planned_faults() {
  for (auto t : ths) if (t->cw && !t->woken && t->spur_step >= 0 && steps >= t->spur_step) { t->woken = true; t->spur_step = -1; vsim::count("spurious_wakeup_fired"); vsim::event(101, t->id, 0); }
#ifdef VSIM_PROC
  for (auto& f : cfg.faults) if (f.kind == vsim::F_STRAY_SIGCHLD && f.a == steps) { vsim::count("stray_sigchld_fired"); vsim::event(102, 0, 0); raise_sigchld(-1); }
#endif
}

// one scheduling decision; returns when the calling thread holds the baton again
void schedule() {
  if (g_child_mode) return;   // only the forking thread exists in the real copy: nothing to schedule
  for (;;) {
    apply_planned_faults();
    std::vector<Cand> ch;
    if (self->state != FIN && schedulable(self)) ch.push_back({0, self->id});
    for (auto t : ths) if (t != self && schedulable(t)) ch.push_back({0, t->id});
    size_t nthreads_en = ch.size();
#ifdef VSIM_PROC
    for (auto& kv : children) { auto& c = kv.second; if (c.state == 1) ch.push_back({1, c.pid}); if (c.state == 2 && !c.hung && !c.stopped && c.age >= c.fate.min_steps) ch.push_back({2, c.pid}); }
    for (auto& kv : children) if (kv.second.state == 2) {
      auto& c = kv.second; c.age++;
      // job control from outside: the child is stopped, later continued; both changes of state raise SIGCHLD (no SA_NOCLDSTOP in sa_flags)
      if (c.fate.stop_at >= 0 && !c.hung) {
        const bool nocldstop = (handlers[SIGCHLD].sa_flags & SA_NOCLDSTOP) != 0;
        if (!c.stopped && c.age == c.fate.stop_at + 1) { c.stopped = true; c.stop_reported = false; vsim::count("child_stopped"); vsim::event(106, c.pid, 0); if (!nocldstop) raise_sigchld(c.parent_thread); }
        else if (c.stopped && c.age >= c.fate.stop_at + 1 + c.fate.stop_len) { c.stopped = false; c.fate.stop_at = -1; vsim::count("child_continued"); vsim::event(107, c.pid, 0); if (!nocldstop) raise_sigchld(c.parent_thread); }
      }
    }
#endif
    if (ch.empty()) {
      bool all = true; for (auto t : ths) if (t->state != FIN) all = false;
      if (all) return;
      bool later = false;
      for (auto t : ths) if (t->state == B_COND && !t->woken && t->spur_step >= 0) later = true;   // a planned spurious wake-up is still to come
#ifdef VSIM_PROC
      for (auto& kv : children) if (kv.second.state == 2 && !kv.second.hung) later = true;           // a child still has to run for a while
      for (auto& f : cfg.faults) if (f.kind == vsim::F_STRAY_SIGCHLD && f.a > steps) later = true;
#endif
      if (later) { ++steps; if (steps > cfg.max_steps) fatal("no-progress", "step budget exhausted while idle: " + vsim::describe_threads()); continue; }
      { std::string d = vsim::describe_threads();
#ifdef VSIM_PROC
        for (auto& kv : children) if (kv.second.hung) d += " [child " + std::to_string(kv.first) + " never terminates: " + kv.second.real_note + "]";
#endif
        fatal("deadlock", d); }
    }
    ++steps;
    if (steps > cfg.max_steps) fatal("no-progress", "step budget exhausted: " + vsim::describe_threads());
    // strategy-shaped proposal (PRNG mode); replay uses the recorded index
    uint32_t n = uint32_t(ch.size()), prop = 0;
    if (!cfg.replay) {
      uint64_t r = rng.next();
      switch (cfg.strategy) {
        case vsim::S_STICKY:
          if (ch[0].a == self->id && ch[0].kind == 0 && int(r & 3) < cfg.sticky_num) prop = 0; else prop = uint32_t((r >> 8) % n);
          break;
        case vsim::S_STARVE: {
          prop = uint32_t((r >> 8) % n);
          if (ch[prop].kind == 0 && ch[prop].a == cfg.starve_thread && n > 1 && (r & 7) != 0) prop = (prop + 1) % n;
          break; }
        case vsim::S_PCT: {
          if (n > nthreads_en && (r & 3) == 0) { prop = uint32_t(nthreads_en + (r >> 8) % (n - nthreads_en)); break; }
          if (nthreads_en == 0) { prop = uint32_t((r >> 8) % n); break; }
          if (((r >> 4) % 24) == 0 && self->state != FIN) self->prio = -steps;   // priority change point
          long best = 0; bool have = false;
          for (uint32_t i = 0; i < nthreads_en; ++i) { long p = ths[ch[i].a]->prio; if (!have || p > best) { best = p; prop = i; have = true; } }
          break; }
        default: prop = uint32_t((r >> 8) % n);
      }
    }
    auto c = ch[decide(n, vsim::D_THREAD, prop)];
    fnv(shash, (uint64_t(c.kind) << 32) ^ uint64_t(c.a));
#ifdef VSIM_PROC
    if (c.kind == 1) {
      auto& k = children[c.a];
      if (k.fate.kind == 2 && k.real_done && k.hung) {   // the real copy of the child wrote "NO" and then blocked for ever in its exit path
        pipes[fds[k.ffd_w].pipe].buf += "NO"; close_fd(k.ffd_w); close_fd(k.cfd_r); k.state = 2; k.age = 0; vsim::count("exec_failure_child_never_terminates");
      }
      else if (k.fate.kind == 2) { pipes[fds[k.ffd_w].pipe].buf += "NO"; close_fd(k.ffd_w); close_fd(k.cfd_r); child_zombie(k); if (k.real_done) k.status = k.real_status; }
      else {
        close_fd(k.ffd_w); close_fd(k.cfd_r); k.state = 2; k.age = 0;
        if (k.out_fd >= 0 && !k.fate.output.empty()) { const char* p = k.fate.output.data(); size_t left = k.fate.output.size(); while (left) { ssize_t w = syscall(SYS_write, k.out_fd, p, left); if (w <= 0) break; p += w; left -= size_t(w); } }
      }
      vsim::event(103, c.a, k.fate.kind);
      continue;
    }
    if (c.kind == 2) { child_zombie(children[c.a]); continue; }
#endif
    Th* nx = ths[c.a];
    if (nx->id != last_run_tid) { vsim::count("context_switches"); last_run_tid = nx->id; }
    if (nx == self) return;
    bool fin = self->state == FIN;   // read before the baton is passed: a finished thread's record may be recycled at once
    Th* me = self;
    sem_post(semof(nx));
    if (!fin) park(me);
    return;
  }
}

#ifdef VSIM_PROC
void run_pending_handler() {
  while (self->deliver) {
    self->deliver = false;
    if (!handler_installed()) return;
    auto sa = handlers[SIGCHLD];
    uint64_t old = self->sigmask; uint64_t m = CHLD_BIT;
    for (int s = 1; s < 64; ++s) if (sigismember(&sa.sa_mask, s) == 1) m |= (1ull << s);
    self->sigmask |= m; self->in_handler++;
    int s_ign = self->ign; self->ign = 0;   // a handler is code under test whatever it interrupted
    int s_hia = self->h_in_alloc; self->h_in_alloc = self->in_alloc; if (self->in_alloc) vsim::count("handler_interrupted_the_allocator");
    int saved = self->state; self->state = RUN;
    const void* s_obj = self->obj; const void* s_mtx = self->mtx; int s_join = self->join_target, s_wpid = self->wait_pid, s_rfd = self->read_fd;
    vsim::count("handler_runs");
    for (auto& kv : mowner) if (kv.second == self->id) { vsim::count("handler_ran_in_lock_holder"); break; }
    vsim::event(104, self->id, saved);
    sa.sa_handler(SIGCHLD);
    vsim::event(105, self->id, 0);
    self->state = saved; self->obj = s_obj; self->mtx = s_mtx; self->join_target = s_join; self->wait_pid = s_wpid; self->read_fd = s_rfd;
    self->in_handler--; self->sigmask = old; self->ign = s_ign; self->h_in_alloc = s_hia;
    if (sig_pending_proc && can_take_signal(self)) { sig_pending_proc = false; self->deliver = true; }
  }
}
#else
inline void run_pending_handler() {}
#endif

// block until the condition attached to self->state holds; with 'interruptible' returns false when a handler ran
bool block(bool interruptible) {
  for (;;) {
    schedule();
#ifdef VSIM_PROC
    if (self->deliver) { int st = self->state; run_pending_handler(); self->state = st; if (interruptible && !cond_ok(self)) return false; }
#endif
    if (cond_ok(self)) return true;
  }
}
void ypoint() { schedule(); run_pending_handler(); }

void* tramp(void* p) {
  Carrier* c = static_cast<Carrier*>(p);
  for (;;) {
    while (sem_wait(&c->sem) == -1 && errno == EINTR) {}   // first scheduling of the simulated thread assigned to this carrier
    Th* t = c->th;
    self = t;
    race_thread_start(c);
    run_pending_handler();
    t->retval = t->fn(t->arg);
    t->state = FIN;
    vsim::event(9, t->id, 0);
    schedule();   // passes the baton; returns at once because this simulated thread is finished
    self = nullptr;
  }
  return nullptr;
}

}  // namespace

namespace vsim {

void set_fatal_callback(fatal_cb f) { on_fatal = f; }
bool active() { return g_active; }
int self_id() { return (g_active && self) ? self->id : -1; }
long nsteps() { return steps; }
uint64_t hash() { return hashv; }
uint64_t schedule_hash() { return shash; }
uint64_t seq() { return g_seq; }
const std::vector<Event>& events() { return evlog; }
const std::vector<uint32_t>& decisions() { return decs; }
int nthreads() { return int(ths.size()); }
void state_counts(int out[8]) {
  for (int i = 0; i < 8; ++i) out[i] = 0;
  for (auto t : ths) switch (t->state) { case RUN: out[0]++; break; case B_MUTEX: out[1]++; break; case B_COND: out[t->woken ? 3 : 2]++; break; case B_JOIN: out[4]++; break; case B_WAITPID: out[5]++; break; case B_READ: out[6]++; break; default: out[7]++; }
}
const std::vector<std::pair<std::string, long>>& counters() { return ctrs; }
long counter(const char* n) { for (auto& c : ctrs) if (c.first == n) return c.second; return 0; }
void count(const char* n, long d) { for (auto& c : ctrs) if (c.first == n) { c.second += d; return; } ctrs.emplace_back(n, d); }

const char* mutex_name(const void* m) {
  Dl_info info;
  if (dladdr(const_cast<void*>(m), &info) && info.dli_sname && info.dli_saddr == m) return info.dli_sname;
  return "(anonymous)";
}

// source position(s) of a code address, inlined frames included (fatal paths only: runs addr2line)
std::string where(const void* pc) {   // fatal path only: source position(s) of an access, inlined frames included
  Dl_info i;
  if (pc && dladdr(const_cast<void*>(pc), &i) && i.dli_fname) {
    char cmd[1024]; snprintf(cmd, sizeof cmd, "addr2line -Cfpie '%s' 0x%lx 2>/dev/null", i.dli_fname, (unsigned long)(uintptr_t(pc) - uintptr_t(i.dli_fbase) - 1));
    std::string out;
    if (FILE* f = popen(cmd, "r")) {
      char l[1200]; int n = 0;
      while (n < 4 && fgets(l, sizeof l, f)) {
        std::string s(l); while (!s.empty() && (s.back() == '\n' || s.back() == ' ')) s.pop_back();
        if (s.empty() || s[0] == '?') continue;
        auto at = s.rfind(" at "); std::string fn = at == std::string::npos ? s : s.substr(0, at), pos = at == std::string::npos ? "" : s.substr(at + 4);
        if (fn.compare(0, 13, " (inlined by)") == 0) fn = fn.substr(14);
        if (fn.size() > 90) fn = fn.substr(0, 90) + "...";
        auto sl = pos.rfind('/'); if (sl != std::string::npos) { auto sl2 = pos.rfind('/', sl - 1); pos = pos.substr(sl2 == std::string::npos ? sl + 1 : sl2 + 1); }
        auto disc = pos.find(" (discriminator"); if (disc != std::string::npos) pos = pos.substr(0, disc);
        out += (n ? " <- " : "") + fn + " (" + pos + ")"; ++n;
      }
      pclose(f);
    }
    if (!out.empty()) return out;
    if (i.dli_sname) { int st = 0; char* d = abi::__cxa_demangle(i.dli_sname, nullptr, nullptr, &st); std::string s = (st == 0 && d) ? d : i.dli_sname; free(d); return s.size() > 160 ? s.substr(0, 160) + "..." : s; }
  }
  return "(unknown function)";
}

// the innermost frames of the calling thread that belong neither to the C++ library nor to the simulator (fatal paths only)
std::string stack_summary(int max_frames) {
  void* fr[24]; int n = backtrace(fr, 24); std::string out; int shown = 0;
  // one addr2line process for all the frames that lie in the executable itself
  Dl_info i0; std::string cmd;
  for (int k = 1; k < n; ++k) {
    Dl_info i;
    if (!dladdr(fr[k], &i) || !i.dli_fname) continue;
    { std::string fnm(i.dli_fname); if (fnm.find(".so") != std::string::npos) continue; }   // shared objects (the C++ library, the simulator's own in the race variant) are not the code under test
    if (cmd.empty()) { i0 = i; cmd = std::string("addr2line -Cfpie '") + i.dli_fname + "'"; }
    if (i.dli_fbase != i0.dli_fbase) continue;
    char a[32]; snprintf(a, sizeof a, " 0x%lx", (unsigned long)(uintptr_t(fr[k]) - uintptr_t(i.dli_fbase) - 1)); cmd += a;
  }
  if (cmd.empty()) return "(no frame of the code under test)";
  cmd += " 2>/dev/null";
  FILE* f = popen(cmd.c_str(), "r"); if (!f) return "(addr2line not available)";
  char l[1200];
  while (shown < max_frames && fgets(l, sizeof l, f)) {
    std::string s(l); while (!s.empty() && (s.back() == '\n' || s.back() == ' ')) s.pop_back();
    if (s.compare(0, 13, " (inlined by)") == 0) s = s.substr(14);
    auto at = s.rfind(" at "); if (at == std::string::npos) continue;
    std::string fn = s.substr(0, at), pos = s.substr(at + 4);
    if (shown && pos.find("vsim.cpp") != std::string::npos) break;   // the simulator frame that called the handler: the frames below belong to the interrupted code
    if (fn.empty() || fn[0] == '?' || fn.compare(0, 5, "std::") == 0 || (fn.find(" std::") != std::string::npos && fn.find("tfel::") == std::string::npos)) continue;
    if (pos.find("/bits/") != std::string::npos || pos.find("/ext/") != std::string::npos || pos.find("vsim.cpp") != std::string::npos || pos.find("hutil.h") != std::string::npos || pos.find("/c++/") != std::string::npos) continue;
    if (fn.find("vsim_Z") != std::string::npos || fn.find("alloc_point") != std::string::npos || fn.find("__wrap_") != std::string::npos || fn.find("operator new") != std::string::npos || fn.find("operator delete") != std::string::npos) continue;
    auto par = fn.find('('); if (par != std::string::npos) fn = fn.substr(0, par);
    auto sl = pos.rfind('/'); if (sl != std::string::npos) pos = pos.substr(sl + 1);
    auto disc = pos.find(" (discriminator"); if (disc != std::string::npos) pos = pos.substr(0, disc);
    out += (shown ? " <- " : "") + fn + " (" + pos + ")"; ++shown;
  }
  pclose(f);
  return out.empty() ? "(no frame of the code under test)" : out;
}

std::string describe_threads() {
  std::string s;
  char b[256];
  for (auto t : ths) {
    snprintf(b, sizeof b, "T%d:%s", t->id, state_name(t->state)); s += b;
    if (t->state == B_MUTEX) { auto it = mowner.find(t->obj); snprintf(b, sizeof b, "(%s held by T%d)", mutex_name(t->obj), it == mowner.end() ? -1 : it->second); s += b; }
#ifdef VSIM_PROC
    if (t->in_handler) s += "[in-signal-handler]";
    if (t->state == B_WAITPID) { snprintf(b, sizeof b, "(pid %d)", t->wait_pid); s += b; }
#endif
    s += ' ';
  }
  return s;
}

uint64_t event(int kind, long a, long b) {
  ++g_seq;
  int tid = self ? self->id : -1;
  evlog.push_back({g_seq, tid, kind, a, b});
  fnv(hashv, (uint64_t(kind) << 48) ^ (uint64_t(tid & 0xffff) << 32) ^ uint64_t(a * 1000003 + b));
  return g_seq;
}

uint32_t choose(uint32_t n, int kind) { return decide(n, kind, uint32_t(rng.next() % (n ? n : 1))); }

void begin(const Config& c) {
  for (auto c : carriers) if (!c->th || c->th->state == FIN) { c->idle = true; c->th = nullptr; }
  for (auto t : ths) delete t;
  ths.clear(); mowner.clear(); mdepth.clear(); mclock.clear(); shadow.clear(); evlog.clear(); decs.clear(); ctrs.clear();
  cfg = c; rng.seed(c.seed); replay_pos = 0; steps = 0; g_seq = 0; cond_wait_calls = 0; last_run_tid = 0;
  hashv = 1469598103934665603ull; shash = 1469598103934665603ull;
#ifdef VSIM_PROC
  for (auto& kv : children) if (kv.second.out_fd >= 0) __real_close(kv.second.out_fd);
  alloc_calls = 0;
  pipes.clear(); fds.clear(); children.clear(); next_fd = 10000; next_pipe = 1; next_pid = 5000; sig_pending_proc = false;
  // every run is a new process: default dispositions, or SIGCHLD ignored when the simulated process was started that way (a disposition
  // that is inherited through exec: daemons, schedulers and CI runners start their jobs like this)
  memset(handlers, 0, sizeof handlers);
  if (cfg.sigchld_ignored) handlers[SIGCHLD].sa_handler = SIG_IGN;
#endif
  static bool main_sem_init = false; if (!main_sem_init) { sem_init(&main_sem, 0, 0); main_sem_init = true; }
  Th* t = new Th{}; t->id = 0; t->prio = 1 << 20; t->ign = 1; vc_tick(t);
  ths.push_back(t); self = t; race_begin(); g_active = true;
}

uint64_t end() {
  race_end();
  g_active = false;
  return hashv;
}

void yield() { if (g_active && self) { ypoint(); } }
int race_mode(int ignore) { if (!(g_active && self)) return 0; int o = self->ign; self->ign = ignore; return o; }

#ifdef VSIM_PROC
void set_next_fate(const Fate& f) { if (self) self->next_fate = f; }
void set_fate_provider(fate_provider p) { fate_prov = p; }
// Called by the harness when a command is over (execute() has returned): the pids of the children this thread forked and that have been
// reaped may be handed out again.  Re-use *inside* the window between a waitpid and the caller's bookkeeping would need the whole pid space
// to wrap around within microseconds: the simulator does not explore it.
void pids_settled() { if (g_active && self) for (auto& kv : children) if (kv.second.state == 4 && kv.second.parent_thread == self->id) kv.second.reusable = true; }
bool in_forked_child() { return g_child_mode; }
int children_unreaped() { int n = 0; for (auto& kv : children) if (kv.second.state != 4) ++n; return n; }
int fake_fds_open() { int n = 0; for (auto& kv : fds) { bool childs = false; for (auto& c : children) if (c.second.cfd_r == kv.first || c.second.ffd_w == kv.first) childs = true; if (!childs) ++n; } return n; }
#endif

}  // namespace vsim

#define SIM_ON (g_active && self)

extern "C" {

// -------------------------------------------------------------------------- shared-access hook (TFEL_VERIF builds of /repo)
void tfel_verif_shared_access(const void* p, int is_write) {
  if (!SIM_ON) return;
  vsim::count(is_write ? "shared_writes_checked" : "shared_reads_checked");
  Shadow& sh = shadow[p];
  auto hb = [](int tid, uint32_t clk) { return tid < 0 || tid == self->id || clk <= vc_get(self->vc, tid); };
  char b[400];
  if (!hb(sh.wtid, sh.wclk)) { snprintf(b, sizeof b, "%s of shared state %s by T%d is not ordered after the write by T%d (no common lock, no create/join edge)", is_write ? "write" : "read", vsim::mutex_name(p), self->id, sh.wtid); fatal("data-race", b); }
  if (is_write) {
    for (auto& r : sh.reads) if (!hb(r.first, r.second)) { snprintf(b, sizeof b, "write of shared state %s by T%d is not ordered after the read by T%d", vsim::mutex_name(p), self->id, r.first); fatal("data-race", b); }
    vc_tick(self); sh.wtid = self->id; sh.wclk = vc_get(self->vc, self->id); sh.reads.clear();
  } else { vc_tick(self); sh.reads[self->id] = vc_get(self->vc, self->id); }
}

// -------------------------------------------------------------------------- threads
int pthread_mutex_lock(pthread_mutex_t* m) {
  if (!SIM_ON) { static auto f = real<int (*)(pthread_mutex_t*)>("pthread_mutex_lock"); return f(m); }
  ypoint();   // scheduling point before the operation
  auto it = mowner.find(m);
  if (g_child_mode && it != mowner.end() && it->second != self->id)   // fork copies the locks, not the threads that hold them
    child_report(std::string("BLOCKED the child blocks for ever on mutex ") + vsim::mutex_name(m) + ", which thread T" + std::to_string(it->second) + " of the parent held at the time of the fork (only the forking thread exists in the child); the child was in: " + vsim::stack_summary(3));
  if (it != mowner.end() && it->second == self->id && is_recursive(m)) { mdepth[m]++; vsim::count("recursive_mutex_reentered"); return 0; }
  if (it != mowner.end() && it->second == self->id) {
    char b[512];
#ifdef VSIM_PROC
    int inh = self->in_handler;
#else
    int inh = 0;
#endif
    snprintf(b, sizeof b, "thread T%d locks mutex %s which it already owns%s; %s", self->id, vsim::mutex_name(m), inh ? " (from inside a signal handler that interrupted the owner)" : "", vsim::describe_threads().c_str());
    fatal("self-deadlock", b);
  }
  if (it != mowner.end()) { self->state = B_MUTEX; self->obj = m; vsim::count("mutex_contended"); block(false); self->state = RUN; }
  mowner[m] = self->id;
  { auto q = mclock.find(m); if (q != mclock.end()) vc_join(self->vc, q->second); }
  vsim::event(3, (long)self->id, 0);
  ypoint();   // ... and right after acquisition: a thread can be preempted or take a signal while holding a lock
  return 0;
}
int pthread_mutex_trylock(pthread_mutex_t* m) {
  if (!SIM_ON) { static auto f = real<int (*)(pthread_mutex_t*)>("pthread_mutex_trylock"); return f(m); }
  ypoint();
  { auto it = mowner.find(m); if (it != mowner.end()) { if (it->second == self->id && is_recursive(m)) { mdepth[m]++; return 0; } return EBUSY; } }
  mowner[m] = self->id; { auto q = mclock.find(m); if (q != mclock.end()) vc_join(self->vc, q->second); } ypoint(); return 0;
}
int pthread_mutex_unlock(pthread_mutex_t* m) {
  if (!SIM_ON) { static auto f = real<int (*)(pthread_mutex_t*)>("pthread_mutex_unlock"); return f(m); }
  auto it = mowner.find(m);
  if (it != mowner.end() && it->second == self->id) {
    auto d = mdepth.find(m);
    if (d != mdepth.end() && d->second > 0) { d->second--; return 0; }
    mclock[m] = self->vc; vc_tick(self);   // publish, then open a new epoch: later accesses are not covered by this release
    mowner.erase(it);
  }
  vsim::event(4, (long)self->id, 0);
  ypoint();
  return 0;
}
int pthread_mutex_destroy(pthread_mutex_t* m) {
  if (SIM_ON) mowner.erase(m);
  static auto f = real<int (*)(pthread_mutex_t*)>("pthread_mutex_destroy"); return f(m);
}
static int sim_cond_wait(pthread_cond_t* c, pthread_mutex_t* m) {
  if (g_child_mode) child_report("BLOCKED the child waits on a condition variable that no thread of the child can signal");
  ypoint();
  long k = cond_wait_calls++;
  mclock[m] = self->vc; vc_tick(self);
  mowner.erase(m);
  self->state = B_COND; self->obj = c; self->mtx = m; self->woken = false; self->spur_step = -1; self->cw = c;
  for (auto& f : cfg.faults) if (f.kind == vsim::F_SPURIOUS && f.a == k) self->spur_step = steps + 1 + f.b;
  vsim::event(5, (long)self->id, 0);
  block(false);
  mowner[m] = self->id; self->state = RUN; self->spur_step = -1; self->cw = nullptr;
  { auto q = mclock.find(m); if (q != mclock.end()) vc_join(self->vc, q->second); }
  vsim::event(6, (long)self->id, 0);
  ypoint();
  return 0;
}
int pthread_cond_wait(pthread_cond_t* c, pthread_mutex_t* m) {
  if (!SIM_ON) { static auto f = real<int (*)(pthread_cond_t*, pthread_mutex_t*)>("pthread_cond_wait"); return f(c, m); }
  return sim_cond_wait(c, m);
}
int pthread_cond_timedwait(pthread_cond_t* c, pthread_mutex_t* m, const struct timespec* ts) {
  if (!SIM_ON) { static auto f = real<int (*)(pthread_cond_t*, pthread_mutex_t*, const struct timespec*)>("pthread_cond_timedwait"); return f(c, m, ts); }
  vsim::count("timedwait_treated_as_wait"); return sim_cond_wait(c, m);
}
int pthread_cond_clockwait(pthread_cond_t* c, pthread_mutex_t* m, clockid_t ck, const struct timespec* ts) {
  if (!SIM_ON) { static auto f = real<int (*)(pthread_cond_t*, pthread_mutex_t*, clockid_t, const struct timespec*)>("pthread_cond_clockwait"); return f(c, m, ck, ts); }
  vsim::count("timedwait_treated_as_wait"); return sim_cond_wait(c, m);
}
int pthread_cond_signal(pthread_cond_t* c) {
  if (!SIM_ON) { static auto f = real<int (*)(pthread_cond_t*)>("pthread_cond_signal"); return f(c); }
  ypoint();
  std::vector<Th*> w; for (auto t : ths) if (t->cw == c && !t->woken) w.push_back(t);
  if (!w.empty()) { Th* t = w[vsim::choose(uint32_t(w.size()), vsim::D_NOTIFY)]; t->woken = true; vsim::event(7, t->id, (long)w.size()); if (w.size() > 1) vsim::count("notify_one_with_choice"); }
  else vsim::event(7, -1, 0);
  ypoint();
  return 0;
}
int pthread_cond_broadcast(pthread_cond_t* c) {
  if (!SIM_ON) { static auto f = real<int (*)(pthread_cond_t*)>("pthread_cond_broadcast"); return f(c); }
  ypoint();
  long n = 0; for (auto t : ths) if (t->cw == c && !t->woken) { t->woken = true; ++n; }
  vsim::event(8, n, 0);
  ypoint();
  return 0;
}
int pthread_create(pthread_t* pt, const pthread_attr_t* a, void* (*fn)(void*), void* arg) {
  typedef int (*F)(pthread_t*, const pthread_attr_t*, void* (*)(void*), void*);
  static F f = real<F>("pthread_create");
  if (!SIM_ON || g_child_mode) return f(pt, a, fn, arg);
  Th* t = new Th{}; t->id = int(ths.size()); t->fn = fn; t->arg = arg;
  t->prio = cfg.replay ? 0 : long(rng.next() % 1000) + 1;
#ifdef VSIM_PROC
  t->sigmask = self->sigmask;
#endif
  Carrier* c = nullptr;
  for (auto k : carriers) if (k->idle) { c = k; break; }
  if (!c) {
    c = new Carrier{}; sem_init(&c->sem, 0, 0);
    int r = f(&c->real, nullptr, tramp, c);
    if (r != 0) { delete c; delete t; return r; }
    carriers.push_back(c);
  }
  t->vc = self->vc; vc_tick(t); vc_tick(self); t->ign = self->ign;
  c->idle = false; c->th = t; t->car = c; t->real = c->real;
  ths.push_back(t);
  *pt = c->real;
  (void)a;
  vsim::event(1, self->id, t->id);
  ypoint();
  return 0;
}
int pthread_join(pthread_t pt, void** ret) {
  typedef int (*F)(pthread_t, void**);
  static F f = real<F>("pthread_join");
  if (g_child_mode) child_report("BLOCKED the child joins a thread that does not exist in the child");
  if (!SIM_ON) return f(pt, ret);
  int target = -1; for (auto t : ths) if (t->id > 0 && !t->joined && pthread_equal(t->real, pt)) target = t->id;
  if (target < 0) { for (auto c : carriers) if (pthread_equal(c->real, pt)) return ESRCH; return f(pt, ret); }
  ypoint();
  self->state = B_JOIN; self->join_target = target;
  block(false);
  self->state = RUN;
  vsim::event(2, self->id, target);
  Th* t = ths[target]; t->joined = true; vc_join(self->vc, t->vc);
  if (ret) *ret = t->retval;
  t->car->idle = true; t->car->th = nullptr;   // the carrier can now serve another simulated thread
  return 0;
}

#ifdef VSIM_PROC
// -------------------------------------------------------------------------- the memory allocator as seen by signal handlers
// The objects compiled from /repo have their references to operator new / delete renamed to the functions below (objcopy
// --redefine-sym).  malloc and free are not async-signal-safe: a handler that allocates or frees while the thread it interrupted is
// itself inside the allocator blocks for ever on the arena lock that thread holds (or corrupts the heap).  An allocation is "inside
// the allocator" for the simulator when it was chosen as a scheduling point (cfg.alloc_rate: one allocation in alloc_rate, phase
// alloc_phase), which is the only place where a child can exit — and SIGCHLD be sent to this thread — while the allocation is in flight.
static void alloc_point(const void* pc) {
  if (!SIM_ON || g_child_mode) return;
  if (self->in_handler && self->h_in_alloc) {
    (void)pc;
    std::string site = vsim::stack_summary(3);
    fatal("self-deadlock", "allocator re-entered by signal handler: the SIGCHLD handler running on thread T" + std::to_string(self->id) + " calls operator new/delete from " + site +
          " while the thread it interrupted is inside malloc/free (not async-signal-safe: the arena lock is held by the interrupted thread); " + vsim::describe_threads());
  }
  const long k = alloc_calls++;
  if (self->in_handler) vsim::count("allocator_calls_in_handlers"); else vsim::count("allocator_calls");
  if (cfg.alloc_rate > 0 && !self->in_handler && (k % cfg.alloc_rate) == (cfg.alloc_phase % cfg.alloc_rate)) {
    vsim::count("allocations_as_scheduling_points");
    self->in_alloc++; ypoint(); self->in_alloc--;
  }
}
void* vsim_Znwm(size_t n) { alloc_point(__builtin_return_address(0)); return ::operator new(n); }
void* vsim_Znam(size_t n) { alloc_point(__builtin_return_address(0)); return ::operator new[](n); }
void vsim_ZdlPv(void* p) { alloc_point(__builtin_return_address(0)); ::operator delete(p); }
void vsim_ZdaPv(void* p) { alloc_point(__builtin_return_address(0)); ::operator delete[](p); }
void vsim_ZdlPvm(void* p, size_t) { alloc_point(__builtin_return_address(0)); ::operator delete(p); }
void vsim_ZdaPvm(void* p, size_t) { alloc_point(__builtin_return_address(0)); ::operator delete[](p); }

// -------------------------------------------------------------------------- processes, pipes, signals
int __wrap_pipe(int p[2]) {
  if (!SIM_ON) return __real_pipe(p);
  int id = next_pipe++; pipes[id] = Pipe{}; p[0] = next_fd++; p[1] = next_fd++;
  fds[p[0]] = {id, false}; fds[p[1]] = {id, true}; pipes[id].readers = 1; pipes[id].writers = 1;
  self->recent_pipes.push_back(id);
  return 0;
}
pid_t __wrap_fork(void) {
  if (!SIM_ON) return __real_fork();
  Child c; c.state = 0; c.parent_thread = self->id;
  if (cfg.pid_recycle) {   // a small pid space: the pid of a reaped child whose command is over (see pids_settled) is handed out again
    int pid = 5000; for (;;) { auto it = children.find(pid); if (it == children.end() || (it->second.state == 4 && it->second.reusable)) break; ++pid; }
    if (children.count(pid)) vsim::count("pid_recycled");
    c.pid = pid;
  } else c.pid = next_pid++;
  c.fate = (fate_prov && !self->last_out_path.empty()) ? fate_prov(self->last_out_path.c_str()) : self->next_fate;
  auto& rp = self->recent_pipes;
  if (rp.size() < 2) fatal("harness-error", "fork without the two handshake pipes");
  int ffd = rp[rp.size() - 2], cfdp = rp[rp.size() - 1];
  c.cfd_r = next_fd++; fds[c.cfd_r] = {cfdp, false}; pipes[cfdp].readers++;
  c.ffd_w = next_fd++; fds[c.ffd_w] = {ffd, true}; pipes[ffd].writers++;
  if (c.fate.kind == 2) {
    // Exec failure: the child side of createProcess is real code that runs after a failed execvp, in a copy of this process in which only
    // the forking thread exists while every lock keeps the state it had at the instant of the fork.  It is executed for real in a forked
    // copy of the harness (simulated descriptors answer trivially there, see g_child_mode); the copy reports whether it terminated, and
    // with which status, or where it blocked.  The simulated child then behaves accordingly.
    int rp[2];
    if (__real_pipe(rp) == 0) {
      fflush(nullptr);
      pid_t real_pid = __real_fork();
      if (real_pid == 0) {
        g_child_mode = true; g_child_report_fd = rp[1]; __real_close(rp[0]);
        return 0;   // the code under test now runs its `pid == 0` branch
      }
      __real_close(rp[1]);
      std::string rep; bool timeout = false;
      if (real_pid > 0) {
        for (;;) {
          struct pollfd pf = {rp[0], POLLIN, 0};
          int pr = poll(&pf, 1, 8000);
          if (pr == 0) { timeout = true; break; }
          if (pr < 0) { if (errno == EINTR) continue; break; }
          char b[512]; ssize_t n = __real_read(rp[0], b, sizeof b);
          if (n <= 0) break;
          rep.append(b, size_t(n));
        }
        if (timeout) __real_kill(real_pid, SIGKILL);
        int st = 0; while (__real_waitpid(real_pid, &st, 0) == -1 && errno == EINTR) {}
        c.real_done = true; c.real_status = st;
        while (!rep.empty() && (rep.back() == '\n' || rep.back() == ' ')) rep.pop_back();
        if (timeout) { c.hung = true; c.real_note = "the real copy of the child did not terminate within 8 s of wall clock after the failed exec"; }
        else if (rep.compare(0, 7, "BLOCKED") == 0) { c.hung = true; c.real_note = rep.substr(8); }
        else if (rep.compare(0, 5, "FATAL") == 0) { c.hung = true; c.real_note = rep; }
        vsim::count(c.hung ? "real_exec_failure_children_blocked" : "real_exec_failure_children_terminated");
      }
      __real_close(rp[0]);
    }
  }
  if (self->last_out_fd >= 0) { c.out_fd = dup(self->last_out_fd); }
  self->last_out_fd = -1; self->last_out_path.clear();
  children[c.pid] = c;
  vsim::count("fork");
  vsim::event(20, self->id, c.pid);
  ypoint();
  return c.pid;
}
static ssize_t raw_write(int fd, const void* b, size_t n) { return syscall(SYS_write, fd, b, n); }   // never re-enters the interposed write()
// writes to real files (the shared tfel-check.log ...) are scheduling points: a flush in the middle of a block can be overtaken
static void file_write_point(int fd) { if (SIM_ON && fd >= 3 && fd < 10000) { vsim::count("file_write_scheduling_points"); ypoint(); } }
// reached from shared libraries (libstdc++'s basic_filebuf), which --wrap does not cover
ssize_t write(int fd, const void* b, size_t n) { file_write_point(fd); return raw_write(fd, b, n); }
ssize_t writev(int fd, const struct iovec* v, int c) { static auto f = real<ssize_t (*)(int, const struct iovec*, int)>("writev"); file_write_point(fd); return f(fd, v, c); }
ssize_t __wrap_write(int fd, const void* b, size_t n) {
  if (g_child_mode) return fd >= 10000 ? ssize_t(n) : raw_write(fd, b, n);
  if (!SIM_ON || fd < 10000) { file_write_point(fd); return raw_write(fd, b, n); }
  ypoint();
  auto it = fds.find(fd); if (it == fds.end()) { errno = EBADF; return -1; }
  int pid_ = it->second.pipe;
  pipes[pid_].buf.append(static_cast<const char*>(b), n);
  for (auto& kv : children) { auto& c = kv.second; if (c.state == 0) { auto f2 = fds.find(c.cfd_r); if (f2 != fds.end() && f2->second.pipe == pid_ && pipes[pid_].buf.size() >= 2) { pipes[pid_].buf.clear(); c.state = 1; } } }
  ypoint();
  return ssize_t(n);
}
ssize_t __wrap_read(int fd, void* b, size_t n) {
  if (g_child_mode && fd >= 10000) { size_t k = std::min<size_t>(n, 2); memcpy(b, "OK", k); return ssize_t(k); }   // the father's handshake
  if (!SIM_ON || fd < 10000) return __real_read(fd, b, n);
  ypoint();
  self->state = B_READ; self->read_fd = fd;
  bool ok = true;
  if (!cond_ok(self)) ok = block(true);
  self->state = RUN;
  if (!ok) { vsim::count("EINTR_read"); errno = EINTR; return -1; }
  auto it = fds.find(fd); if (it == fds.end()) { errno = EBADF; return -1; }
  auto& p = pipes[it->second.pipe]; size_t k = std::min(n, p.buf.size()); memcpy(b, p.buf.data(), k); p.buf.erase(0, k);
  return ssize_t(k);
}
int __wrap_close(int fd) {
  if (g_child_mode && fd >= 10000) return 0;
  if (!SIM_ON || fd < 10000) return __real_close(fd);
  if (!fds.count(fd)) { vsim::count("fake_fd_double_close"); errno = EBADF; return -1; }
  ypoint();   // a system call is a preemption point (e.g. between a handler's waitpid and the publication of the status)
  if (!fds.count(fd)) { vsim::count("fake_fd_double_close"); errno = EBADF; return -1; }
  close_fd(fd);
  return 0;
}
int __wrap_open(const char* path, int flags, ...) {
  mode_t mode = 0; if (flags & O_CREAT) { va_list ap; va_start(ap, flags); mode = va_arg(ap, mode_t); va_end(ap); }
  int fd = __real_open(path, flags, mode);
  if (SIM_ON && fd >= 0 && (flags & O_WRONLY)) { self->last_out_fd = fd; self->last_out_path = path; }
  return fd;
}
int __wrap_open64(const char* path, int flags, ...) {
  mode_t mode = 0; if (flags & O_CREAT) { va_list ap; va_start(ap, flags); mode = va_arg(ap, mode_t); va_end(ap); }
  int fd = __real_open64(path, flags, mode);
  if (SIM_ON && fd >= 0 && (flags & O_WRONLY)) { self->last_out_fd = fd; self->last_out_path = path; }
  return fd;
}
pid_t __wrap_waitpid(pid_t pid, int* st, int opt) {
  if (g_child_mode) { errno = ECHILD; return -1; }
  if (!SIM_ON) return __real_waitpid(pid, st, opt);
  ypoint();
  vsim::event(25, pid, opt);
  for (;;) {
    Child* z = nullptr; bool exists = false;
    if (pid > 0) { auto it = children.find(pid); if (it != children.end() && it->second.state != 4) { exists = true; if (it->second.state == 3) z = &it->second;
        else if ((opt & WUNTRACED) && it->second.stopped && !it->second.stop_reported) {   // a stopped child is reported (once) to a caller that asked for it
          it->second.stop_reported = true; if (st) *st = (SIGSTOP << 8) | 0x7f; vsim::count("stopped_child_reported_by_waitpid"); vsim::event(26, pid, (SIGSTOP << 8) | 0x7f); self->state = RUN; ypoint(); return pid; } } }
    else for (auto& kv : children) { if (kv.second.state != 4) exists = true; if (kv.second.state == 3 && !z) z = &kv.second; }
    if (!exists) { vsim::count((opt & WNOHANG) ? "ECHILD_wnohang" : "ECHILD_blocking"); errno = ECHILD; vsim::event(26, pid, -ECHILD); return -1; }
    if (z) {
      int zp = z->pid; z->state = 4; if (st) *st = z->status;
      vsim::count((opt & WNOHANG) ? "reaped_by_wnohang" : "reaped_by_blocking_wait"); vsim::event(26, zp, z->status);
      ypoint();   // back in user code: the caller can be preempted between the reaping and whatever it does with the status (a signal that
                  // arrived while we slept is handled here too)
      return zp;
    }
    if (opt & WNOHANG) return 0;
    self->state = B_WAITPID; self->wait_pid = pid; self->wait_opt = opt;
    // Linux do_wait(): on wake-up the children are re-scanned before signal_pending() is tested
    for (;;) {
      schedule();
      if (wait_ready(self)) break;
      if (self->deliver) {
        int s2 = self->state; run_pending_handler(); self->state = s2;
        if (wait_ready(self)) break;
        self->state = RUN; vsim::count("EINTR_waitpid"); errno = EINTR; vsim::event(26, pid, -EINTR); return -1;
      }
    }
    self->state = RUN;
  }
}
int __wrap_kill(pid_t pid, int sig) {
  if (g_child_mode) { errno = ESRCH; return -1; }
  if (!SIM_ON) return __real_kill(pid, sig);
  ypoint();
  auto it = children.find(pid);
  if (it == children.end() || it->second.state == 4) { errno = ESRCH; return -1; }
  if (it->second.state == 3) return 0;
  vsim::count("kill_sent");
  if (it->second.state < 2) { close_fd(it->second.ffd_w); close_fd(it->second.cfd_r); }
  it->second.fate.kind = 1; it->second.fate.value = sig; child_zombie(it->second);
  ypoint();
  return 0;
}
int __wrap_sigaction(int sig, const struct sigaction* act, struct sigaction* old) {
  if (g_child_mode) { if (old) memset(old, 0, sizeof *old); return 0; }
  if (!SIM_ON) return __real_sigaction(sig, act, old);
  if (sig < 1 || sig > 64) { errno = EINVAL; return -1; }
  if (old) *old = handlers[sig];
  if (act) handlers[sig] = *act;
  return 0;
}
int __wrap_sigprocmask(int how, const sigset_t* set, sigset_t* old) {
  if (g_child_mode) { if (old) sigemptyset(old); return 0; }
  if (!SIM_ON) return __real_sigprocmask(how, set, old);
  if (old) { sigemptyset(old); for (int s = 1; s < 64; ++s) if (self->sigmask & (1ull << s)) sigaddset(old, s); }
  if (set) {
    uint64_t m = 0; for (int s = 1; s < 64; ++s) if (sigismember(set, s) == 1) m |= (1ull << s);
    if (how == SIG_BLOCK) self->sigmask |= m; else if (how == SIG_UNBLOCK) self->sigmask &= ~m; else self->sigmask = m;
  }
  if (sig_pending_proc && can_take_signal(self)) { sig_pending_proc = false; self->deliver = true; vsim::count("sigchld_delivered_at_unblock"); run_pending_handler(); }
  ypoint();
  return 0;
}
int __wrap_pthread_sigmask(int how, const sigset_t* set, sigset_t* old) { return __wrap_sigprocmask(how, set, old); }
#endif

}  // extern "C"

// ============================================================================ race detection (VSIM_RACE)
// The sources taken from /repo (and the harness) are compiled with -fsanitize=thread but linked WITHOUT the TSan runtime:
// the compiler-inserted calls (__tsan_read*/__tsan_write*/__tsan_atomic*) land here and feed the same vector clocks as the
// simulated mutexes / thread create / join.  Every plain memory access of the instrumented code is therefore checked for a
// happens-before order with the previous conflicting accesses — under the serialising scheduler this is the only way to see
// that a lock was removed, narrowed or replaced by another one when the unprotected region contains no scheduling point.
// This file is then built as a shared object linked with -Bsymbolic, so that the simulator's own (uninstrumented) template
// instantiations are never replaced by instrumented copies from the executable.
#ifndef VSIM_RACE
namespace { void race_begin() {} void race_end() {} void race_thread_start(Carrier*) {} }
#else
#include <malloc.h>
#include <cxxabi.h>
#include <execinfo.h>
#include <new>
#include <unordered_map>
namespace {
struct RAcc { int tid; uint32_t clk; const void* pc; };
struct RCell { RAcc w{-1, 0, nullptr}; std::vector<RAcc> rd; };
std::unordered_map<uintptr_t, RCell> rcells;                 // one cell per byte address
std::map<uintptr_t, std::vector<uint32_t>> aclock;           // clock attached to each atomic location
thread_local bool in_rt = false;
long n_rd = 0, n_wr = 0, n_at = 0, n_forget = 0, n_lib = 0;

// A carrier (real thread) serves several simulated threads one after the other: what the previous one left in the carrier's stack
// and static TLS block is not shared with the next one.
void race_thread_start(Carrier* c) {
  if (!c->stk_hi) {
    pthread_attr_t at;
    if (pthread_getattr_np(pthread_self(), &at) == 0) { void* lo = nullptr; size_t sz = 0; pthread_attr_getstack(&at, &lo, &sz); pthread_attr_destroy(&at); c->stk_lo = uintptr_t(lo); c->stk_hi = uintptr_t(lo) + sz; }
  }
  in_rt = true;
  for (auto it = rcells.begin(); it != rcells.end();) { if (it->first >= c->stk_lo && it->first < c->stk_hi) it = rcells.erase(it); else ++it; }
  for (auto it = aclock.lower_bound(c->stk_lo); it != aclock.end() && it->first < c->stk_hi;) it = aclock.erase(it);
  in_rt = false;
}
void race_begin() {
  in_rt = true; rcells.clear(); aclock.clear(); in_rt = false; n_rd = n_wr = n_at = n_forget = n_lib = 0;
}
void race_end() {
  in_rt = true;
  vsim::count("race_reads_checked", n_rd); vsim::count("race_writes_checked", n_wr); vsim::count("race_atomic_ops", n_at); vsim::count("race_library_calls_checked", n_lib);
  (void)n_forget;   // not reported: the number of blocks freed during a run depends on what earlier runs of the process left allocated
  in_rt = false;
}
std::string what(uintptr_t a) {
  Dl_info i;
  if (dladdr(reinterpret_cast<void*>(a), &i) && i.dli_sname) return std::string("global ") + i.dli_sname;
  return "heap or anonymous memory";
}
bool ordered(const RAcc& x) { return x.tid < 0 || x.tid == self->id || x.clk <= vc_get(self->vc, x.tid); }
void race_report(bool wr, const void* pc, const RAcc& o, bool owr, uintptr_t a) {
  std::string d = std::string(wr ? "write" : "read") + " by T" + std::to_string(self->id) + " in " + vsim::where(pc) + " is not ordered with the earlier " + (owr ? "write" : "read") + " by T" +
                  std::to_string(o.tid) + " in " + vsim::where(o.pc) + " (" + what(a) + "; no common lock, no create/join edge)";
  fatal("data-race", d);
}
inline void race_access(const void* p, size_t n, bool wr, const void* pc) {
  if (!SIM_ON || in_rt || self->ign) return;
  uintptr_t a = uintptr_t(p);
  in_rt = true;
  (wr ? n_wr : n_rd)++;
  const uint32_t my = vc_get(self->vc, self->id);
  for (size_t k = 0; k < n; ++k) {
    RCell& c = rcells[a + k];
    if (!ordered(c.w)) race_report(wr, pc, c.w, true, a + k);
    if (wr) {
      for (auto& r : c.rd) if (!ordered(r)) race_report(true, pc, r, false, a + k);
      c.w = {self->id, my, pc}; c.rd.clear();
    } else {
      bool found = false;
      for (auto& r : c.rd) if (r.tid == self->id) { r.clk = my; r.pc = pc; found = true; }
      if (!found) c.rd.push_back({self->id, my, pc});
    }
  }
  in_rt = false;
}
inline void race_atomic(const volatile void* p) {   // every atomic operation is treated as acquire + release on its location
  if (!SIM_ON || in_rt) return;
  in_rt = true; ++n_at;
  auto& c = aclock[uintptr_t(p)];
  vc_join(self->vc, c); c = self->vc; vc_tick(self);
  in_rt = false;
}
void race_forget(void* p) {
  if (!p || !SIM_ON || in_rt) return;
  in_rt = true; ++n_forget;
  size_t n = malloc_usable_size(p); uintptr_t a = uintptr_t(p);
  if (rcells.size() < n) { for (auto it = rcells.begin(); it != rcells.end();) { if (it->first >= a && it->first < a + n) it = rcells.erase(it); else ++it; } }
  else for (size_t k = 0; k < n; ++k) rcells.erase(a + k);
  for (auto it = aclock.lower_bound(a); it != aclock.end() && it->first < a + n;) it = aclock.erase(it);
  in_rt = false;
}
}  // namespace

// memory handed back to the allocator loses its access history (a new owner is not racing with the previous one)
void* operator new(size_t n) { void* p = malloc(n ? n : 1); if (!p) throw std::bad_alloc(); return p; }
void* operator new[](size_t n) { return operator new(n); }
void* operator new(size_t n, const std::nothrow_t&) noexcept { return malloc(n ? n : 1); }
void* operator new[](size_t n, const std::nothrow_t&) noexcept { return malloc(n ? n : 1); }
void* operator new(size_t n, std::align_val_t al) { void* p = nullptr; if (posix_memalign(&p, std::max(size_t(al), sizeof(void*)), n ? n : 1) != 0) throw std::bad_alloc(); return p; }
void* operator new[](size_t n, std::align_val_t al) { return operator new(n, al); }
void operator delete(void* p) noexcept { race_forget(p); free(p); }
void operator delete[](void* p) noexcept { race_forget(p); free(p); }
void operator delete(void* p, size_t) noexcept { race_forget(p); free(p); }
void operator delete[](void* p, size_t) noexcept { race_forget(p); free(p); }
void operator delete(void* p, std::align_val_t) noexcept { race_forget(p); free(p); }
void operator delete[](void* p, std::align_val_t) noexcept { race_forget(p); free(p); }
void operator delete(void* p, size_t, std::align_val_t) noexcept { race_forget(p); free(p); }
void operator delete[](void* p, size_t, std::align_val_t) noexcept { race_forget(p); free(p); }
void operator delete(void* p, const std::nothrow_t&) noexcept { race_forget(p); free(p); }
void operator delete[](void* p, const std::nothrow_t&) noexcept { race_forget(p); free(p); }

// Calls into the (uninstrumented) C++ library that modify an object: an insertion into a std::ostream is a write access to the stream
// object.  The standard streams are excluded (concurrent use of cout/cerr/clog is allowed by the standard).
namespace {
bool std_stream(const void* os) {
  static const void* c[3] = {dlsym(RTLD_DEFAULT, "_ZSt4cout"), dlsym(RTLD_DEFAULT, "_ZSt4cerr"), dlsym(RTLD_DEFAULT, "_ZSt4clog")};
  return os == c[0] || os == c[1] || os == c[2];
}
inline void lib_write(const void* obj, const void* pc) { if (SIM_ON && !in_rt && !self->ign && !std_stream(obj)) { ++n_lib; race_access(obj, 1, true, pc); } }
}
#define OSTREAM_MEMBER(NAME, MANGLED, ARGS_DECL, ARGS)                                                      \
  extern "C" void* NAME ARGS_DECL __asm__(MANGLED);                                                          \
  void* NAME ARGS_DECL { lib_write(os, __builtin_return_address(0)); static auto f = real<void* (*) ARGS_DECL>(MANGLED); return f ARGS; }
OSTREAM_MEMBER(vsim_os_insert, "_ZSt16__ostream_insertIcSt11char_traitsIcEERSt13basic_ostreamIT_T0_ES6_PKS3_l", (void* os, const char* s, long n), (os, s, n))
OSTREAM_MEMBER(vsim_os_write, "_ZNSo5writeEPKcl", (void* os, const char* s, long n), (os, s, n))
OSTREAM_MEMBER(vsim_os_put, "_ZNSo3putEc", (void* os, char ch), (os, ch))
OSTREAM_MEMBER(vsim_os_flush, "_ZNSo5flushEv", (void* os), (os))
OSTREAM_MEMBER(vsim_os_ins_l, "_ZNSo9_M_insertIlEERSoT_", (void* os, long v), (os, v))
OSTREAM_MEMBER(vsim_os_ins_m, "_ZNSo9_M_insertImEERSoT_", (void* os, unsigned long v), (os, v))
OSTREAM_MEMBER(vsim_os_ins_x, "_ZNSo9_M_insertIxEERSoT_", (void* os, long long v), (os, v))
OSTREAM_MEMBER(vsim_os_ins_y, "_ZNSo9_M_insertIyEERSoT_", (void* os, unsigned long long v), (os, v))
OSTREAM_MEMBER(vsim_os_ins_d, "_ZNSo9_M_insertIdEERSoT_", (void* os, double v), (os, v))
OSTREAM_MEMBER(vsim_os_ins_e, "_ZNSo9_M_insertIeEERSoT_", (void* os, long double v), (os, v))
OSTREAM_MEMBER(vsim_os_ins_b, "_ZNSo9_M_insertIbEERSoT_", (void* os, bool v), (os, v))
OSTREAM_MEMBER(vsim_os_ins_p, "_ZNSo9_M_insertIPKvEERSoT_", (void* os, const void* v), (os, v))
OSTREAM_MEMBER(vsim_os_ins_i, "_ZNSolsEi", (void* os, int v), (os, v))
OSTREAM_MEMBER(vsim_os_ins_s, "_ZNSolsEs", (void* os, short v), (os, v))
OSTREAM_MEMBER(vsim_os_ins_sb, "_ZNSolsEPSt15basic_streambufIcSt11char_traitsIcEE", (void* os, void* v), (os, v))

#define RA(p, n, w) race_access(p, n, w, __builtin_return_address(0))
extern "C" {
void __tsan_init() {}
void __tsan_func_entry(void*) {}
void __tsan_func_exit() {}
void __tsan_read1(void* p) { RA(p, 1, false); }   void __tsan_write1(void* p) { RA(p, 1, true); }
void __tsan_read2(void* p) { RA(p, 2, false); }   void __tsan_write2(void* p) { RA(p, 2, true); }
void __tsan_read4(void* p) { RA(p, 4, false); }   void __tsan_write4(void* p) { RA(p, 4, true); }
void __tsan_read8(void* p) { RA(p, 8, false); }   void __tsan_write8(void* p) { RA(p, 8, true); }
void __tsan_read16(void* p) { RA(p, 16, false); } void __tsan_write16(void* p) { RA(p, 16, true); }
void __tsan_unaligned_read2(void* p) { RA(p, 2, false); }   void __tsan_unaligned_write2(void* p) { RA(p, 2, true); }
void __tsan_unaligned_read4(void* p) { RA(p, 4, false); }   void __tsan_unaligned_write4(void* p) { RA(p, 4, true); }
void __tsan_unaligned_read8(void* p) { RA(p, 8, false); }   void __tsan_unaligned_write8(void* p) { RA(p, 8, true); }
void __tsan_unaligned_read16(void* p) { RA(p, 16, false); } void __tsan_unaligned_write16(void* p) { RA(p, 16, true); }
void __tsan_read_range(void* p, unsigned long n) { RA(p, n, false); }
void __tsan_write_range(void* p, unsigned long n) { RA(p, n, true); }
void __tsan_vptr_update(void** vp, void* v) { if (*vp != v) RA(vp, 8, true); }
void __tsan_vptr_read(void** vp) { RA(vp, 8, false); }
void __tsan_atomic_thread_fence(int) {}
void __tsan_atomic_signal_fence(int) {}
#define ATOMICS(N, T)                                                                                                             \
  T __tsan_atomic##N##_load(const volatile T* a, int) { race_atomic(a); return __atomic_load_n(a, __ATOMIC_SEQ_CST); }              \
  void __tsan_atomic##N##_store(volatile T* a, T v, int) { race_atomic(a); __atomic_store_n(a, v, __ATOMIC_SEQ_CST); }              \
  T __tsan_atomic##N##_exchange(volatile T* a, T v, int) { race_atomic(a); return __atomic_exchange_n(a, v, __ATOMIC_SEQ_CST); }    \
  T __tsan_atomic##N##_fetch_add(volatile T* a, T v, int) { race_atomic(a); return __atomic_fetch_add(a, v, __ATOMIC_SEQ_CST); }    \
  T __tsan_atomic##N##_fetch_sub(volatile T* a, T v, int) { race_atomic(a); return __atomic_fetch_sub(a, v, __ATOMIC_SEQ_CST); }    \
  T __tsan_atomic##N##_fetch_and(volatile T* a, T v, int) { race_atomic(a); return __atomic_fetch_and(a, v, __ATOMIC_SEQ_CST); }    \
  T __tsan_atomic##N##_fetch_or(volatile T* a, T v, int) { race_atomic(a); return __atomic_fetch_or(a, v, __ATOMIC_SEQ_CST); }      \
  T __tsan_atomic##N##_fetch_xor(volatile T* a, T v, int) { race_atomic(a); return __atomic_fetch_xor(a, v, __ATOMIC_SEQ_CST); }    \
  T __tsan_atomic##N##_fetch_nand(volatile T* a, T v, int) { race_atomic(a); return __atomic_fetch_nand(a, v, __ATOMIC_SEQ_CST); }  \
  int __tsan_atomic##N##_compare_exchange_strong(volatile T* a, T* e, T v, int, int) { race_atomic(a); return __atomic_compare_exchange_n(a, e, v, false, __ATOMIC_SEQ_CST, __ATOMIC_SEQ_CST); } \
  int __tsan_atomic##N##_compare_exchange_weak(volatile T* a, T* e, T v, int, int) { race_atomic(a); return __atomic_compare_exchange_n(a, e, v, false, __ATOMIC_SEQ_CST, __ATOMIC_SEQ_CST); }   \
  T __tsan_atomic##N##_compare_exchange_val(volatile T* a, T e, T v, int, int) { race_atomic(a); __atomic_compare_exchange_n(a, &e, v, false, __ATOMIC_SEQ_CST, __ATOMIC_SEQ_CST); return e; }
ATOMICS(8, unsigned char)
ATOMICS(16, unsigned short)
ATOMICS(32, unsigned int)
ATOMICS(64, unsigned long)
}  // extern "C"
#endif  // VSIM_RACE
