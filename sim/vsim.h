// vsim — deterministic simulator core (see /verif/DESIGN.md §2.1)
//
// Real threads, parked: every simulated thread is a real pthread, exactly one runs at a
// time; every choice (next thread, notify_one target, spurious wake-ups, child exit instant,
// signal target) is drawn from one decision source: a seeded PRNG, or a recorded decision
// list when replaying.  Nothing here reads a clock or any other source of nondeterminism.
#pragma once
#include <cstdint>
#include <string>
#include <vector>

namespace vsim {

// decision kinds (recorded with every decision, used by reach counters only)
enum DecisionKind { D_THREAD = 0, D_NOTIFY = 1, D_SIGTARGET = 2, D_OTHER = 3 };

// scheduling strategies (swarm: chosen per run by the harness from the seed)
enum Strategy { S_UNIFORM = 0, S_STICKY = 1, S_STARVE = 2, S_PCT = 3 };

struct Fault {  // explicit fault entries of a plan
  int kind;     // 1 = spurious wake-up of the k-th cond_wait call (global count) after 'b' further steps
  long a, b;
};
enum { F_SPURIOUS = 1, F_STRAY_SIGCHLD = 2 /* a: step at which an unrelated SIGCHLD is raised */ };

struct Config {
  uint64_t seed = 1;
  int strategy = S_UNIFORM;
  int starve_thread = -1;      // S_STARVE: thread id chosen only when nothing else is enabled (or 1/8)
  int sticky_num = 3;          // S_STICKY: keep running the current thread with probability sticky_num/4
  int sig_linux_bias = 0;      // 1: a SIGCHLD goes to the forking thread whenever it is eligible
  int sigchld_ignored = 0;     // 1: the simulated process starts with SIGCHLD ignored (disposition inherited from its parent)
  int pid_recycle = 0;         // 1: simulated pids come from a small space and are re-used as soon as the child has been reaped
  int alloc_rate = 0;          // > 0: one operator new/delete in alloc_rate made by the code under test is a scheduling point "inside the allocator"
  int alloc_phase = 0;
  long max_steps = 200000;     // step cap (bounded liveness)
  std::vector<Fault> faults;
  bool replay = false;         // decisions come from 'decisions' (modulo the enabled set; exhausted -> 0)
  std::vector<uint32_t> decisions;
};

struct Event { uint64_t seq; int tid; int kind; long a; long b; };

// ---- run life-cycle (called by the harness on the main simulated thread)
void begin(const Config& cfg);
uint64_t end();                       // returns the log hash
bool active();

// ---- cooperative points and oracle events
void yield();                         // scheduling point
uint64_t event(int kind, long a = 0, long b = 0);   // oracle event, returns its global sequence number
uint64_t seq();                       // current global sequence number
int self_id();                        // simulated thread id of the caller (-1 if not simulated)
uint32_t choose(uint32_t n, int kind = D_OTHER);    // a recorded decision in [0,n)

// ---- race detection over compiler-instrumented accesses (VSIM_RACE builds of vsim.cpp; harmless no-ops otherwise).
// A simulated thread is either monitored (code under test) or not (harness / oracle code, which shares its own tables between
// simulated threads without locks — safe under the serialising scheduler, and none of the property's business).  The main
// simulated thread starts unmonitored; a new thread inherits the mode of its creator.
int race_mode(int ignore);            // sets the calling thread's mode (1 = not monitored), returns the previous one
struct Monitored { int old; Monitored() : old(race_mode(0)) {} ~Monitored() { race_mode(old); } };
struct Unmonitored { int old; Unmonitored() : old(race_mode(1)) {} ~Unmonitored() { race_mode(old); } };

// ---- results of the current / last run
long nsteps();
uint64_t hash();
uint64_t schedule_hash();             // hash of the thread-choice sequence only
const std::vector<Event>& events();
const std::vector<uint32_t>& decisions();
long counter(const char* name);
void count(const char* name, long d = 1);
const std::vector<std::pair<std::string, long>>& counters();
int nthreads();
void state_counts(int out[8]);           // number of simulated threads per state (runnable, on-mutex, cond-waiting, cond-woken, joining, waitpid, read, finished)

// ---- fatal conditions detected by the simulator (deadlock, self-deadlock, step cap):
// the harness installs a callback; it must not return (print the result line and _exit).
typedef void (*fatal_cb)(const char* cls, const char* detail);
void set_fatal_callback(fatal_cb);
std::string describe_threads();
std::string stack_summary(int max_frames);   // innermost frames of the code under test on the calling thread (fatal paths only)
std::string where(const void* pc);    // source position(s) of a code address (runs addr2line: fatal paths only)       // state of every simulated thread (for reports)
const char* mutex_name(const void* m);  // symbol name of a mutex when it is a global with a dynamic symbol

#ifdef VSIM_PROC
// ---- simulated processes (C30 / C52)
struct Fate {
  int kind = 0;       // 0 exit(value), 1 killed by signal 'value', 2 exec failure
  int value = 0;
  int min_steps = 0;  // the child cannot end before that many scheduling steps after exec
  int stop_at = -1;   // >= 0: that many steps after exec the child is stopped (SIGSTOP / SIGTSTP from outside: job control) ...
  int stop_len = 0;   // ... and continued (SIGCONT) that many steps later; a stopped child does not terminate
  std::string output; // written to the redirected output (real fd) at exec time (C52)
};
void set_next_fate(const Fate& f);    // fate of the next child forked by the calling thread
typedef Fate (*fate_provider)(const char* output_path);   // alternative: fate looked up from the output file name
void set_fate_provider(fate_provider);
void pids_settled();                  // pid recycling: the reaped children forked by the calling thread may have their pid re-used from now on
bool in_forked_child();               // true in the real forked copy that runs the child side of an exec failure (harness atexit handlers must do nothing there)
int children_unreaped();              // zombies + running children at this instant
int fake_fds_open();                  // simulated descriptors still open in the parent
#endif

}  // namespace vsim
