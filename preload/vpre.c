/* vpre — LD_PRELOAD simulator layer for unmodified real binaries (mfront, mtest) built from the current tree.
 *
 * Three independent feature sets, each switched on by its own environment variable (nothing is active otherwise):
 *
 *  VPRE_IO_LOG / VPRE_IO_PLAN   I/O event numbering on files written below the working directory, with a fault plan:
 *                               "<k>:kb" kill before event k, "<k>:ka" kill after it, "<k>:kt" torn write (page-aligned
 *                               prefix, then kill), "<k>:en" / "<k>:ei" the call fails with ENOSPC / EIO.         (C47)
 *  VPRE_ND_SEED                 seeded perturbation of every source of nondeterminism the process can observe: clock
 *                               (seeded epoch, jumps forwards and backwards), pid, order of directory entries, heap
 *                               layout (padding of allocations).                                                   (C36)
 *  VPRE_FAULT_PLAN / _LOG       provider of `int vsim_fault(int stage)` for /verif-owned test behaviours: entries
 *                               "<stage>@<n>:<code>" make the n-th call for that stage return <code>.        (C50, C40)
 *
 *  VPRE_SEM_PRIVATE             the named semaphore of mfront (MFrontLock) becomes a process-private one: runs that are
 *                               killed on purpose must not leave the real /dev/shm semaphore locked for ever.
 *
 * No clock, pid or address is read for any decision: everything is a function of the environment variables. */
#define _GNU_SOURCE
#include <dirent.h>
#include <dlfcn.h>
#include <errno.h>
#include <fcntl.h>
#include <signal.h>
#include <stdarg.h>
#include <stdint.h>
#include <stdio.h>
#include <stdlib.h>
#include <string.h>
#include <sys/stat.h>
#include <sys/time.h>
#include <sys/types.h>
#include <sys/uio.h>
#include <time.h>
#include <unistd.h>

#define REAL(name) static __typeof__(&name) real_fn; if (!real_fn) real_fn = (__typeof__(&name))dlsym(RTLD_NEXT, #name)

static uint64_t splitmix(uint64_t* x) { uint64_t z = (*x += 0x9E3779B97F4A7C15ull); z = (z ^ (z >> 30)) * 0xBF58476D1CE4E5B9ull; z = (z ^ (z >> 27)) * 0x94D049BB133111EBull; return z ^ (z >> 31); }

/* ===================================================================================== I/O events (C47) */
static int io_on = -1, io_fd = -1, io_nev = 0, io_fault_at = -1; static char io_mode[4];
static unsigned char watched[65536];
static ssize_t raw_write(int fd, const void* b, size_t n) { REAL(write); return real_fn(fd, b, n); }
static void io_init(void) {
  if (io_on >= 0) return;
  const char* l = getenv("VPRE_IO_LOG");
  io_on = l ? 1 : 0;
  if (!io_on) return;
  { REAL(open); io_fd = real_fn(l, O_WRONLY | O_CREAT | O_APPEND, 0644); }
  const char* p = getenv("VPRE_IO_PLAN");
  if (p) { io_fault_at = atoi(p); const char* c = strchr(p, ':'); if (c) { strncpy(io_mode, c + 1, 3); io_mode[3] = 0; } }
}
static int is_local(const char* p) { return p && p[0] != '/' ; }   /* mfront writes its outputs through relative paths */
#include <sys/syscall.h>
static void die(void) { kill((pid_t)syscall(SYS_getpid), SIGKILL); for (;;) pause(); }   /* the real pid: getpid() may be simulated */
/* returns 0: perform the call normally; 1: fail with errno set; (does not return when the plan kills before the call) */
static int io_event(const char* kind, const char* path, long n) {
  io_init();
  if (!io_on) return 0;
  ++io_nev;
  char b[600]; int l = snprintf(b, sizeof b, "%d %s %s %ld\n", io_nev, kind, path ? path : "-", n);
  if (io_fd >= 0) raw_write(io_fd, b, (size_t)l);
  if (io_nev != io_fault_at) return 0;
  if (!strcmp(io_mode, "kb")) die();
  if (!strcmp(io_mode, "en")) { errno = ENOSPC; return 1; }
  if (!strcmp(io_mode, "ei")) { errno = EIO; return 1; }
  return 0;
}
static void io_after(void) { if (io_on == 1 && io_nev == io_fault_at && (!strcmp(io_mode, "ka") || !strcmp(io_mode, "kt"))) die(); }
static int io_torn(void) { return io_on == 1 && io_nev == io_fault_at && !strcmp(io_mode, "kt"); }

static int wants_write(const char* m) { return strchr(m, 'w') || strchr(m, 'a') || strchr(m, '+'); }
FILE* fopen(const char* p, const char* m) {
  REAL(fopen);
  if (!is_local(p) || !wants_write(m)) return real_fn(p, m);
  if (io_event("open", p, 0)) return NULL;
  FILE* f = real_fn(p, m); if (f) watched[fileno(f) & 65535] = 1; io_after(); return f;
}
FILE* fopen64(const char* p, const char* m) {
  REAL(fopen64);
  if (!is_local(p) || !wants_write(m)) return real_fn(p, m);
  if (io_event("open", p, 0)) return NULL;
  FILE* f = real_fn(p, m); if (f) watched[fileno(f) & 65535] = 1; io_after(); return f;
}
static int open_common(int which, int dirfd, const char* p, int flags, mode_t mode) {
  int w = (flags & (O_WRONLY | O_RDWR)) != 0 && is_local(p);
  if (w && io_event("open", p, 0)) return -1;
  int fd;
  if (which == 0) { REAL(open); fd = real_fn(p, flags, mode); }
  else if (which == 1) { REAL(open64); fd = real_fn(p, flags, mode); }
  else { REAL(openat); fd = real_fn(dirfd, p, flags, mode); }
  if (w) { if (fd >= 0) watched[fd & 65535] = 1; io_after(); }
  return fd;
}
int open(const char* p, int flags, ...) { mode_t m = 0; if (flags & (O_CREAT | O_TMPFILE)) { va_list ap; va_start(ap, flags); m = va_arg(ap, mode_t); va_end(ap); } return open_common(0, 0, p, flags, m); }
int open64(const char* p, int flags, ...) { mode_t m = 0; if (flags & (O_CREAT | O_TMPFILE)) { va_list ap; va_start(ap, flags); m = va_arg(ap, mode_t); va_end(ap); } return open_common(1, 0, p, flags, m); }
int openat(int d, const char* p, int flags, ...) { mode_t m = 0; if (flags & (O_CREAT | O_TMPFILE)) { va_list ap; va_start(ap, flags); m = va_arg(ap, mode_t); va_end(ap); } return open_common(2, d, p, flags, m); }
ssize_t write(int fd, const void* b, size_t n) {
  if (fd < 3 || !watched[fd & 65535] || fd == io_fd) return raw_write(fd, b, n);
  if (io_event("write", "-", (long)n)) return -1;
  if (io_torn() && n > 4096) { size_t k = (n - 1) & ~(size_t)4095; raw_write(fd, b, k); die(); }
  ssize_t r = raw_write(fd, b, n); io_after(); return r;
}
ssize_t writev(int fd, const struct iovec* v, int c) {
  REAL(writev);
  if (fd < 3 || !watched[fd & 65535]) return real_fn(fd, v, c);
  long tot = 0; for (int i = 0; i < c; ++i) tot += (long)v[i].iov_len;
  if (io_event("write", "-", tot)) return -1;
  if (io_torn() && tot > 4096) { long k = (tot - 1) & ~4095L; for (int i = 0; i < c && k > 0; ++i) { long m = (long)v[i].iov_len < k ? (long)v[i].iov_len : k; raw_write(fd, v[i].iov_base, (size_t)m); k -= m; } die(); }
  ssize_t r = real_fn(fd, v, c); io_after(); return r;
}
int fclose(FILE* f) {
  REAL(fclose);
  int fd = f ? fileno(f) : -1;
  if (fd < 3 || !watched[fd & 65535]) return real_fn(f);
  watched[fd & 65535] = 0;
  if (io_event("close", "-", fd)) { real_fn(f); return EOF; }
  int r = real_fn(f); io_after(); return r;
}
int close(int fd) {
  REAL(close);
  if (fd < 3 || !watched[fd & 65535]) return real_fn(fd);
  watched[fd & 65535] = 0;
  if (io_event("close", "-", fd)) { real_fn(fd); return -1; }
  int r = real_fn(fd); io_after(); return r;
}
int mkdir(const char* p, mode_t m) { REAL(mkdir); if (!is_local(p)) return real_fn(p, m); if (io_event("mkdir", p, 0)) return -1; int r = real_fn(p, m); io_after(); return r; }
int rename(const char* a, const char* b) { REAL(rename); if (!is_local(a) && !is_local(b)) return real_fn(a, b); if (io_event("rename", b, 0)) return -1; int r = real_fn(a, b); io_after(); return r; }
int unlink(const char* p) { REAL(unlink); if (!is_local(p)) return real_fn(p); if (io_event("unlink", p, 0)) return -1; int r = real_fn(p); io_after(); return r; }

/* ===================================================================================== private semaphore */
#include <semaphore.h>
static sem_t private_sem; static int private_sem_init = 0;
sem_t* sem_open(const char* name, int oflag, ...) {
  unsigned value = 1; mode_t mode = 0;
  if (oflag & O_CREAT) { va_list ap; va_start(ap, oflag); mode = va_arg(ap, mode_t); value = va_arg(ap, unsigned); va_end(ap); }
  if (getenv("VPRE_SEM_PRIVATE")) {
    if (!private_sem_init) { sem_init(&private_sem, 0, value); private_sem_init = 1; }
    return &private_sem;
  }
  typedef sem_t* (*fn_t)(const char*, int, ...);
  static fn_t real_fn; if (!real_fn) real_fn = (fn_t)dlsym(RTLD_NEXT, "sem_open");
  return (oflag & O_CREAT) ? real_fn(name, oflag, mode, value) : real_fn(name, oflag);
}
int sem_close(sem_t* s) { REAL(sem_close); if (s == &private_sem) return 0; return real_fn(s); }

/* ===================================================================================== nondeterminism (C36) */
static int nd_on = -1; static uint64_t nd_state, nd_seed; static int64_t nd_clock_ns; static long nd_clock_reads, nd_readdirs, nd_mallocs_padded;
static void nd_init(void) {
  if (nd_on >= 0) return;
  const char* s = getenv("VPRE_ND_SEED");
  nd_on = s ? 1 : 0;
  if (!nd_on) return;
  nd_seed = strtoull(s, 0, 10); nd_state = nd_seed * 0x9E3779B97F4A7C15ull + 77;
  uint64_t t = nd_state; nd_clock_ns = (int64_t)(splitmix(&t) % 1900000000ull) * 1000000000ll;   /* epoch anywhere in [1970, 2030] */
}
static int64_t nd_now(void) {   /* jumps forwards (usually) and backwards (sometimes), by seeded amounts */
  uint64_t r = splitmix(&nd_state); nd_clock_reads++;
  int64_t jump = (int64_t)(r % 7200000000000ull);           /* up to two hours */
  if ((r >> 60) == 0) jump = -jump; else if ((r >> 60) < 4) jump = (int64_t)(r % 1000);
  nd_clock_ns += jump; if (nd_clock_ns < 0) nd_clock_ns = 1000000000ll;
  return nd_clock_ns;
}
time_t time(time_t* t) { REAL(time); nd_init(); if (!nd_on) return real_fn(t); time_t v = (time_t)(nd_now() / 1000000000ll); if (t) *t = v; return v; }
int gettimeofday(struct timeval* tv, void* tz) { REAL(gettimeofday); nd_init(); if (!nd_on) return real_fn(tv, tz); int64_t n = nd_now(); if (tv) { tv->tv_sec = n / 1000000000ll; tv->tv_usec = (n % 1000000000ll) / 1000; } return 0; }
int clock_gettime(clockid_t c, struct timespec* ts) { REAL(clock_gettime); nd_init(); if (!nd_on) return real_fn(c, ts); int64_t n = nd_now(); if (ts) { ts->tv_sec = n / 1000000000ll; ts->tv_nsec = n % 1000000000ll; } return 0; }
clock_t clock(void) { REAL(clock); nd_init(); if (!nd_on) return real_fn(); return (clock_t)(nd_now() / 1000); }
pid_t getpid(void) { REAL(getpid); nd_init(); if (!nd_on || io_on == 1) return real_fn(); return (pid_t)(2 + nd_seed % 4000000); }

/* directory entries are served in a seeded permutation */
struct dlist { DIR* d; struct dirent64* e; int n, pos; };
static struct dlist dls[64];
static struct dlist* dl_get(DIR* d, int create) {
  for (int i = 0; i < 64; ++i) if (dls[i].d == d) return &dls[i];
  if (!create) return NULL;
  for (int i = 0; i < 64; ++i) if (!dls[i].d) {
    REAL(readdir64);
    struct dlist* l = &dls[i]; l->d = d; l->n = 0; l->pos = 0; l->e = NULL; int cap = 0; struct dirent64* x;
    while ((x = real_fn(d)) != NULL) { if (l->n == cap) { cap = cap ? 2 * cap : 32; l->e = realloc(l->e, (size_t)cap * sizeof *l->e); } l->e[l->n++] = *x; }
    uint64_t st = nd_seed ^ 0xabcdef; for (int k = l->n - 1; k > 0; --k) { int j = (int)(splitmix(&st) % (uint64_t)(k + 1)); struct dirent64 t = l->e[k]; l->e[k] = l->e[j]; l->e[j] = t; }
    nd_readdirs++;
    return l;
  }
  return NULL;
}
struct dirent64* readdir64(DIR* d) { REAL(readdir64); nd_init(); if (!nd_on) return real_fn(d); struct dlist* l = dl_get(d, 1); if (!l) return real_fn(d); return l->pos < l->n ? &l->e[l->pos++] : NULL; }
struct dirent* readdir(DIR* d) { return (struct dirent*)readdir64(d); }   /* identical layouts on x86_64 glibc */
int closedir(DIR* d) { REAL(closedir); struct dlist* l = dl_get(d, 0); if (l) { free(l->e); l->e = NULL; l->d = NULL; } return real_fn(d); }

/* heap layout: seeded padding of every allocation (changes the relative order of addresses reproducibly) */
extern void* __libc_malloc(size_t); extern void* __libc_calloc(size_t, size_t); extern void* __libc_realloc(void*, size_t); extern void __libc_free(void*);
static size_t nd_pad(void) { if (nd_on != 1) return 0; uint64_t r = splitmix(&nd_state); nd_mallocs_padded++; return (size_t)((r >> 20) % 24) * 16; }
void* malloc(size_t n) { if (nd_on < 0) nd_init(); return __libc_malloc(n + nd_pad()); }
void* calloc(size_t a, size_t b) { if (nd_on != 1) return __libc_calloc(a, b); size_t n = a * b; void* p = __libc_malloc(n + nd_pad()); if (p) memset(p, 0, n); return p; }
void* realloc(void* p, size_t n) { return __libc_realloc(p, n + nd_pad()); }
void free(void* p) { __libc_free(p); }

/* ===================================================================================== fault plan provider (C50, C40) */
#define MAXPLAN 64
static int fp_init = 0, fp_n = 0, fp_stage[MAXPLAN], fp_code[MAXPLAN]; static long fp_idx[MAXPLAN], fp_calls[16], fp_fired = 0;
static void fp_report(void) {
  const char* l = getenv("VPRE_FAULT_LOG"); if (!l) return;
  REAL(open); int fd = real_fn(l, O_WRONLY | O_CREAT | O_APPEND, 0644); if (fd < 0) return;
  char b[256]; int n = snprintf(b, sizeof b, "calls"); for (int s = 0; s < 16; ++s) if (fp_calls[s]) n += snprintf(b + n, sizeof b - (size_t)n, " %d:%ld", s, fp_calls[s]);
  n += snprintf(b + n, sizeof b - (size_t)n, " fired %ld\n", fp_fired); raw_write(fd, b, (size_t)n); { REAL(close); real_fn(fd); }
}
int vsim_fault(int stage) {
  if (!fp_init) {
    fp_init = 1;
    const char* p = getenv("VPRE_FAULT_PLAN");
    while (p && *p && fp_n < MAXPLAN) { int st = 0, code = 0; long idx = 0; if (sscanf(p, "%d@%ld:%d", &st, &idx, &code) == 3) { fp_stage[fp_n] = st; fp_idx[fp_n] = idx; fp_code[fp_n] = code; fp_n++; } p = strchr(p, ','); if (p) ++p; }
    atexit(fp_report);
  }
  if (stage < 0 || stage > 15) return 0;
  long k = ++fp_calls[stage];
  for (int i = 0; i < fp_n; ++i) if (fp_stage[i] == stage && fp_idx[i] == k) { fp_fired++; return fp_code[i]; }
  return 0;
}

__attribute__((destructor)) static void nd_report(void) {
  const char* l = getenv("VPRE_ND_LOG"); if (!l || nd_on != 1) return;
  REAL(open); int fd = real_fn(l, O_WRONLY | O_CREAT | O_APPEND, 0644); if (fd < 0) return;
  char b[200]; int n = snprintf(b, sizeof b, "clock_reads %ld readdirs %ld allocations_padded %ld\n", nd_clock_reads, nd_readdirs, nd_mallocs_padded); raw_write(fd, b, (size_t)n); { REAL(close); real_fn(fd); }
}
