#!/usr/bin/env python3
"""C36 — code generation is deterministic (DESIGN.md §3 C36).

Real mfront binary (private build of the current tree) under the LD_PRELOAD simulator of its environment: seeded clock
(epoch anywhere, jumps both ways), seeded pid, seeded permutation of directory entries, seeded heap layout (padding of every
allocation changes the relative order of addresses), seeded order of the environment, ASLR off; across run histories
(fresh directory, repeated run, after other inputs, after the same input with another interface)."""
import concurrent.futures, hashlib, json, os, shutil, subprocess, sys, time
sys.path.insert(0, os.path.join(os.path.dirname(os.path.abspath(__file__)), "..", "lib"))
from common import *
from C46 import SM64
from C47 import build_preload, VPRE, MF

PID = "C36"


def corpus():
    t = os.path.join(REPO, "mfront/tests")
    pairs = []
    for sub, ifs in (("properties", ["c", "cxx", "excel", "octave"]), ("behaviours", ["generic"]), ("models", ["generic"])):
        d = os.path.join(t, sub)
        if not os.path.isdir(d):
            continue
        for root, dirs, files in os.walk(d):   # sub-directories too (StandardElasticity, StandardElastoViscoPlasticity, ...)
            dirs.sort()
            for f in sorted(files):
                if f.endswith(".mfront"):
                    for i in ifs:
                        pairs.append((os.path.join(root, f), i))
    # /verif-owned inputs with shapes the repository's own files do not have (arrays of variables with bounds on single elements, one / two
    # user defined tangent operators): always part of the sample, and each other's neighbours in the same-invocation histories
    own = os.path.join(VERIF, "behaviours", "gen36")
    for f in sorted(os.listdir(own)) if os.path.isdir(own) else []:
        if f.endswith(".mfront"):
            pairs.append((os.path.join(own, f), "generic"))
    return pairs


_CLASH = None


def clash_index():
    """basename -> directories of the repository holding a .mfront file of that name (only names present in at least two directories)"""
    global _CLASH
    if _CLASH is None:
        idx = {}
        for root, dirs, files in os.walk(REPO):
            dirs[:] = sorted(d for d in dirs if d not in ("_build", ".git"))
            for f in sorted(files):
                if f.endswith(".mfront"):
                    idx.setdefault(f, []).append(root)
        _CLASH = {k: v for k, v in idx.items() if len(v) >= 2}
    return _CLASH


def foreign_inputs(pair):
    """inputs living in OTHER directories that hold a file with the same name as an auxiliary file of the pair (@MaterialLaw, @Import, @Model ...):
    treated earlier in the same mfront invocation, they must not change how the pair's own auxiliary files are found"""
    import re
    try:
        txt = open(pair[0], errors="replace").read()
    except OSError:
        return []
    names = sorted({os.path.basename(n) for n in re.findall(r'"([A-Za-z0-9_./+-]+\.mfront)"', txt)})
    out = []
    usual = {os.path.dirname(pair[0]), os.path.join(REPO, "mfront/tests/properties")}
    for n in names:
        for d in clash_index().get(n, []):
            if d in usual:
                continue
            for f in sorted(os.listdir(d)):
                if f.endswith(".mfront") and f != n:
                    out.append(os.path.join(d, f))
    return out


AMBIENT = [   # variables of the ambient environment that are no input of the generation (locale, terminal, user, time zone ...)
    ("LANG", ["C", "en_US.UTF-8", "fr_FR.ISO-8859-1", "C.UTF-8"]), ("LC_ALL", [None, "C", "en_US.UTF-8", "de_DE.UTF-8"]), ("LC_CTYPE", [None, "en_US.UTF-8", "C"]),
    ("LC_NUMERIC", [None, "fr_FR.UTF-8", "C"]), ("TZ", [None, "UTC", "Asia/Tokyo", "America/Los_Angeles"]), ("TERM", [None, "dumb", "xterm-256color"]),
    ("USER", [None, "alice", "root"]), ("LOGNAME", [None, "alice"]), ("COLUMNS", [None, "40", "200"]), ("TMPDIR", [None, "/var/tmp"]), ("SHELL", [None, "/bin/zsh"]), ("HOSTNAME", [None, "node-17"])]


def run_mfront(wd, inp, nd_seed=None, env_seed=None, iolog=None, before=(), ambient_seed=None, options=()):
    """before: other inputs treated by the SAME mfront invocation, ahead of inp (same interface); ambient_seed: seeded values (or absence) of
    the ambient environment variables; options: extra command-line options (part of the option set of the pair)"""
    base = tfel_env()
    env = {k: base[k] for k in sorted(base) if k in ("PATH", "LD_LIBRARY_PATH", "HOME", "LANG")}
    env["LD_PRELOAD"] = VPRE
    env["VPRE_SEM_PRIVATE"] = "1"
    env["FILLER_A"] = "1"; env["FILLER_B"] = "2"; env["ZZZ"] = "3"
    if iolog:
        env["VPRE_IO_LOG"] = iolog
    if nd_seed is not None:
        env["VPRE_ND_SEED"] = str(nd_seed)
        env["VPRE_ND_LOG"] = os.path.join(os.path.dirname(wd), "nd.log")
    if ambient_seed is not None:
        ra = SM64(ambient_seed)
        for name, vals in AMBIENT:
            v = vals[ra.range(0, len(vals) - 1)]
            if v is None:
                env.pop(name, None)
            else:
                env[name] = v
    keys = list(env)
    if env_seed is not None:   # seeded order of the initial environment
        r = SM64(env_seed)
        for k in range(len(keys) - 1, 0, -1):
            j = r.range(0, k); keys[k], keys[j] = keys[j], keys[k]
    env = {k: env[k] for k in keys}
    p = subprocess.run(["setarch", "-R", MF, "--interface=" + inp[1], "--search-path=" + os.path.dirname(inp[0]),
                        "--search-path=" + os.path.join(REPO, "mfront/tests/properties")] + list(options) + [b[0] for b in before] + [inp[0]], cwd=wd, env=env, stdout=subprocess.PIPE, stderr=subprocess.STDOUT, text=True)
    return p.returncode, p.stdout


def outputs_of_run(wd, iolog):
    """files written by the run (from the I/O log), minus the cumulative registry / build files; path -> sha256"""
    paths = []
    if os.path.exists(iolog):
        for l in open(iolog).read().splitlines():
            f = l.split()
            if len(f) >= 3 and f[1] == "open":
                paths.append(f[2])
    out = {}
    for p in sorted(set(paths)):
        if os.path.basename(p) in ("targets.lst", "Makefile.mfront", "CMakeLists.txt", "excel.lst") or p.endswith(".bas"):   # cumulative registries (one per directory / material)
            continue
        fp = os.path.join(wd, p)
        out[p] = hashlib.sha256(open(fp, "rb").read()).hexdigest() if os.path.exists(fp) else "absent"
    return out


def tree_hashes(wd):
    out = {}
    for root, dirs, files in os.walk(wd):
        dirs.sort()
        for f in sorted(files):
            fp = os.path.join(root, f)
            out[os.path.relpath(fp, wd)] = hashlib.sha256(open(fp, "rb").read()).hexdigest()
    return out


VARIANTS_QUICK = ["seed", "seed", "repeat", "after-others", "after-other-interface", "env-order", "ambient-environment", "same-invocation", "same-invocation-foreign-directory"]
VARIANTS_THOROUGH = VARIANTS_QUICK + ["seed", "seed", "repeat", "after-others", "env-order", "seed", "same-invocation"]


def check_pair(root, idx, pair, all_pairs, variants, seed):
    """baseline + variants for one (input, interface); the scratch directory has the same path for every variant"""
    pd = os.path.join(root, "p%d" % idx)
    wd = os.path.join(pd, "run")
    res = {"pair": [os.path.basename(pair[0]), pair[1]], "variants": [], "viol": None, "files": 0, "nd": [0, 0, 0]}

    def harvest():   # perturbation counters of the runs made since the last call (the log lives in the scratch directory)
        ndl = os.path.join(pd, "nd.log")
        if os.path.exists(ndl):
            for l in open(ndl).read().splitlines():
                f = l.split()
                if len(f) >= 6:
                    res["nd"][0] += int(f[1]); res["nd"][1] += int(f[3]); res["nd"][2] += int(f[5])
            os.remove(ndl)

    def fresh():
        harvest()
        shutil.rmtree(pd, ignore_errors=True)
        os.makedirs(wd)

    fresh()
    log0 = os.path.join(pd, "io.log")
    rc0, out0 = run_mfront(wd, pair, iolog=log0)
    ref = outputs_of_run(wd, log0)
    res["files"] = len(ref); res["baseline_rc"] = rc0
    r = SM64(seed * 7919 + idx)
    for vi, v in enumerate(variants):
        nd = r.range(1, 10 ** 9)
        fresh()
        hist = v
        snap = None
        if v == "repeat":
            run_mfront(wd, pair)                              # first run, unperturbed; the compared run is the second one
            snap = tree_hashes(wd)                            # ... and it must be a no-op for the whole directory, cumulative files included
        elif v == "after-others":
            for k in range(2):
                o = all_pairs[(idx * 31 + 7 * k + vi + 1) % len(all_pairs)]
                if o != pair:
                    run_mfront(wd, o)
        elif v == "after-other-interface":
            alt = {"c": "cxx", "cxx": "c", "generic": "generic", "excel": "c", "octave": "cxx"}[pair[1]]
            run_mfront(wd, (pair[0], alt)) if alt != pair[1] else run_mfront(wd, all_pairs[(idx + 3) % len(all_pairs)])
        lg = os.path.join(pd, "io.log")
        if os.path.exists(lg):
            os.remove(lg)
        if v == "same-invocation-foreign-directory":
            # as below, but the earlier inputs of the invocation come from directories that hold a file named like one of the pair's own
            # auxiliary files (the repository has such name clashes): each candidate is tried in turn until one invocation succeeds
            cands = foreign_inputs(pair)
            done = False
            for ci in range(min(len(cands), 6)):
                o = cands[(idx + vi + ci) % len(cands)]
                fresh()
                if os.path.exists(lg):
                    os.remove(lg)
                rc, out = run_mfront(wd, pair, nd_seed=None, iolog=lg, before=[(o, pair[1])])
                if rc0 != 0 or rc != 0:
                    continue
                got = {q: h for q, h in outputs_of_run(wd, lg).items() if q in ref}
                res["variants"].append(hist); done = True
                if got != ref:
                    diff = sorted(k for k in set(got) | set(ref) if got.get(k) != ref.get(k))
                    res["viol"] = ("generated-files-differ", "variant %d (%s: after %s in one mfront invocation): %s differ from the files generated when the input is treated alone" % (
                        vi, hist, os.path.relpath(o, REPO), diff[:4]), {"variant": vi, "history": hist, "files": diff[:8], "before": [o]})
                break
            if not done:
                res["skipped_foreign_directory"] = res.get("skipped_foreign_directory", 0) + 1
            if res["viol"]:
                break
            continue
        if v == "same-invocation":
            # history inside one process: the input is the last of three inputs given to a single mfront invocation (same interface and
            # family); only the files the baseline run wrote for this input are compared, and only when the whole invocation succeeds
            fam = [q for q in all_pairs if q[1] == pair[1] and os.path.dirname(q[0]) == os.path.dirname(pair[0]) and q != pair]
            others = [fam[(idx * 17 + 5 * k + vi) % len(fam)] for k in range(2)] if fam else []
            if pair[0].startswith(os.path.join(VERIF, "behaviours", "gen36") + os.sep):
                others = fam   # the /verif-owned inputs are few: each is generated after all the others
            bad = False
            # second option set for behaviours: a keyword given on the command line applies to every input of the invocation
            optsets = [()] + ([("--@SelectedModellingHypothesis=Tridimensional",)] if pair[1] == "generic" and "/tests/behaviours" in pair[0] else [])
            for opts in optsets:
                ref_o, rc_o = ref, rc0
                if opts:
                    fresh()
                    if os.path.exists(lg):
                        os.remove(lg)
                    rc_o, _ = run_mfront(wd, pair, iolog=lg, options=opts)
                    ref_o = outputs_of_run(wd, lg)
                if rc_o != 0 or not others:
                    res["skipped_same_invocation"] = res.get("skipped_same_invocation", 0) + 1
                    continue
                for nds in (None, nd) if not opts else (None,):   # natural heap layout (freed blocks are re-used at the same addresses by the next input), then a perturbed one
                    fresh()
                    if os.path.exists(lg):
                        os.remove(lg)
                    rc, out = run_mfront(wd, pair, nd_seed=nds, iolog=lg, before=others, options=opts)
                    if rc != 0:
                        # the invocation fails: legitimate only if one of the earlier inputs fails on its own with these options
                        alone_ok = True
                        for o in others:
                            fresh()
                            if run_mfront(wd, o, options=opts)[0] != 0:
                                alone_ok = False
                        if alone_ok:
                            res["variants"].append(hist)
                            res["viol"] = ("invocation-fails-although-each-input-succeeds-alone", "variant %d (%s): mfront %s given %s then this input exits with status %d, while each of them succeeds when treated alone with the same options: %s" % (
                                vi, hist, " ".join(opts), [os.path.basename(o[0]) for o in others], rc, out[-200:]), {"variant": vi, "history": hist, "options": list(opts), "before": [o[0] for o in others]})
                            bad = True
                        else:
                            res["skipped_same_invocation"] = res.get("skipped_same_invocation", 0) + 1
                        break
                    got = {q: h for q, h in outputs_of_run(wd, lg).items() if q in ref_o}
                    res["variants"].append(hist)
                    if got != ref_o:
                        diff = sorted(k for k in set(got) | set(ref_o) if got.get(k) != ref_o.get(k))
                        # two inputs of the corpus may declare the same behaviour (WarningTest22 / WarningTest23 both define WarningTest23): in one
                        # invocation the last one treated legitimately owns the files.  A difference is only a violation when none of the earlier
                        # inputs, treated alone, writes one of the differing files
                        clash = False
                        for o in others:
                            fresh()
                            if os.path.exists(lg):
                                os.remove(lg)
                            run_mfront(wd, o, iolog=lg, options=opts)
                            if set(outputs_of_run(wd, lg)) & set(diff):
                                clash = True
                        if clash:
                            res["skipped_same_invocation"] = res.get("skipped_same_invocation", 0) + 1
                            res["variants"].pop()
                            break
                        res["viol"] = ("generated-files-differ", "variant %d (%s after %s in one mfront invocation%s, %s): %s differ from the files generated when the input is treated alone" % (
                            vi, hist, [os.path.basename(o[0]) for o in others], (" with " + " ".join(opts)) if opts else "", "natural heap layout" if nds is None else "nd seed %d" % nds, diff[:4]), {"variant": vi, "history": hist, "nd_seed": nds, "files": diff[:8], "before": [o[0] for o in others], "options": list(opts)})
                        bad = True
                        break
                if bad:
                    break
            if bad:
                break
            continue
        rc, out = run_mfront(wd, pair, nd_seed=nd, env_seed=(nd if v in ("env-order", "ambient-environment") else None), iolog=lg, ambient_seed=(nd if v == "ambient-environment" else None))
        got = outputs_of_run(wd, lg)
        res["variants"].append(hist)
        if snap is not None and rc == 0 and rc0 == 0:
            now = tree_hashes(wd)
            if now != snap:
                diff = sorted(k for k in set(now) | set(snap) if now.get(k) != snap.get(k))
                res["viol"] = ("rerun-changes-the-directory", "variant %d (%s, nd seed %d): generating the same input a second time in the same directory changed %s (cumulative files included: a second generation must be a no-op)" % (vi, hist, nd, diff[:4]),
                               {"variant": vi, "history": hist, "nd_seed": nd, "files": diff[:8]})
                break
        if rc != rc0 or out != out0:
            res["viol"] = ("exit-status-or-messages-differ", "variant %d (%s, nd seed %d): exit %d vs %d; output %r vs %r" % (vi, hist, nd, rc, rc0, out[-200:], out0[-200:]), {"variant": vi, "history": hist, "nd_seed": nd})
            break
        if got != ref:
            diff = sorted(k for k in set(got) | set(ref) if got.get(k) != ref.get(k))
            res["viol"] = ("generated-files-differ", "variant %d (%s, nd seed %d): %s differ from the baseline run" % (vi, hist, nd, diff[:4]), {"variant": vi, "history": hist, "nd_seed": nd, "files": diff[:8]})
            # keep both versions of the first differing file for the report
            break
    harvest()
    shutil.rmtree(pd, ignore_errors=True)
    return res


def main():
    args = parse_args(PID)
    t0 = time.time()
    ensure_tfel(("mfront",))
    build_preload()
    pairs = corpus()
    root = fresh_workdir(PID)
    try:
        tier = 0 if args.tier == "quick" else 1
        variants = VARIANTS_QUICK if tier == 0 else VARIANTS_THOROUGH
        if args.replay:
            rep = json.load(open(args.replay))
            idx = rep["pair_index"]
            res = check_pair(root, idx, pairs[idx], pairs, rep["variants"], rep["seed"])
            if res["viol"]:
                log("replay: %s: %s" % (res["viol"][0], res["viol"][1]))
                log("VIOLATION property=%s replay=%s" % (PID, os.path.abspath(args.replay)))
                return 1
            log("replay: ok")
            return 0
        r = SM64(args.seed)
        if tier == 0:
            n = args.runs or 160
            # a seeded sample, always containing a few of each family
            byfam = {}
            for i, p in enumerate(pairs):
                byfam.setdefault(os.path.basename(os.path.dirname(p[0])) + ":" + p[1], []).append(i)
            chosen = [i for i, p in enumerate(pairs) if foreign_inputs(p)][:12]   # the pairs that can meet a name clash in another directory are always in
            chosen += [i for i, p in enumerate(pairs) if p[0].startswith(os.path.join(VERIF, "behaviours", "gen36") + os.sep)]
            fams = sorted(byfam)
            while len(chosen) < min(n, len(pairs)):
                for f in fams:
                    c = byfam[f]
                    i = c[r.range(0, len(c) - 1)]
                    if i not in chosen:
                        chosen.append(i)
                    if len(chosen) >= n:
                        break
        else:
            chosen = list(range(len(pairs)))
        with concurrent.futures.ThreadPoolExecutor(max_workers=NPROC) as ex:
            results = list(ex.map(lambda i: check_pair(root, i, pairs[i], pairs, variants, args.seed), chosen))
        known = load_known(PID)
        rd = replay_dir(PID)
        exit_code, reported = 0, []
        for i, res in zip(chosen, results):
            if not res["viol"]:
                continue
            cls, detail, info = res["viol"]
            sig = "%s %s:%s" % (cls, res["pair"][0], res["pair"][1])
            path = os.path.join(rd, "%s_%s.json" % (cls, sha(sig)[:8]))
            json.dump({"property": PID, "class": cls, "pair_index": i, "pair": res["pair"], "variants": variants, "seed": args.seed, "detail": detail, "info": info}, open(path, "w"), indent=1)
            # gate: the same pair must fail again in a second execution
            again = check_pair(root, i, pairs[i], pairs, variants, args.seed)
            if not again["viol"] or again["viol"][0] != cls:
                log("MACHINERY ERROR: difference on %s did not reproduce (%s)" % (res["pair"], again["viol"])); return 2
            kf = match_known(known, cls, sig)
            entry = {"class": cls, "signature": sig, "replay": path, "detail": detail}
            if kf:
                entry["known_finding"] = kf.get("id", "")
                log("KNOWN-FINDING: property=%s %s [replay=%s]" % (PID, kf.get("what", sig), path))
            else:
                exit_code = 1
                log("VIOLATION property=%s replay=%s" % (PID, path))
                log("  %s: %s" % (sig, detail))
            reported.append(entry)
        wall = time.time() - t0
        nruns = sum(len(x["variants"]) for x in results)
        nontriv = sum(len(x["variants"]) for x in results if x["files"] > 0)
        nd = [sum(x["nd"][k] for x in results) for k in range(3)]
        hist_counts = {}
        for x in results:
            for v in x["variants"]:
                hist_counts[v] = hist_counts.get(v, 0) + 1
        coverage = {
            "evaluations": nruns,
            "distinct_nontrivial": nontriv,
            "rule": "one evaluation = one perturbed mfront run of an (input, interface) pair compared byte-for-byte (files written by that run, exit status, messages) with the unperturbed baseline run of the same pair in the same scratch path; "
                    "pairs are all .mfront files of mfront/tests/{properties,behaviours,models} x the interfaces the pinned suite uses (a seeded sample in the quick tier); variants: fresh directory with a new simulator seed, repeated run, "
                    "after two other inputs, after the same input with another interface, permuted environment, seeded ambient environment (locale, time zone, terminal, user variables), last of three inputs treated by one mfront invocation (also with a keyword option on the command line), after an input of a directory holding a name clash; non-trivial = the baseline run generated at least one file; each (pair, variant, seed) is distinct",
            "samples": [{"pair": x["pair"], "files_generated": x["files"], "baseline_exit": x.get("baseline_rc"), "variants": x["variants"]} for x in results[:6]],
            "exhaustive": False,
            "pairs_checked": len(results), "pairs_in_corpus": len(pairs),
            "pairs_whose_baseline_generates_files": sum(1 for x in results if x["files"] > 0),
            "histories": hist_counts,
            "perturbations_fired": {"simulated_clock_reads": nd[0], "directory_listings_permuted": nd[1], "allocations_padded": nd[2], "environment_orders_permuted": hist_counts.get("env-order", 0), "aslr": "disabled (setarch -R); address order varied through seeded padding"},
            "runs_per_hour": int(nruns / max(wall, 1e-3) * 3600),
            "components": {"real": ["the mfront binary built from the tree on the repository's own .mfront files"], "simulated": ["clock, pid, directory-entry order, heap layout, environment order"]},
            "findings": reported,
        }
        assumptions = ["the input path and the scratch directory path are the same for every variant (generated files legitimately contain the input path)", "TFEL_BUILD_ID is unset", "cumulative files (src/targets.lst, Makefile.mfront, CMakeLists.txt) are not compared: they depend on the history by design (C47)"]
        if not args.no_evidence:
            write_evidence(PID, args.tier, args.seed, "exploration", coverage, assumptions, wall, sum(1 for e in reported if "known_finding" not in e))
        log("%s %s: %d pairs, %d perturbed runs (%d on pairs that generate files), perturbations %s, %d differing pairs, %.1fs" % (PID, args.tier, len(results), nruns, nontriv, coverage["perturbations_fired"], len(reported), wall))
        return exit_code
    finally:
        shutil.rmtree(root, ignore_errors=True)


if __name__ == "__main__":
    sys.exit(main())
