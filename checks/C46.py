#!/usr/bin/env python3
"""C46 — the mfront inter-process lock provides mutual exclusion (DESIGN.md §3 C46).

Process-level deterministic simulation: every simulated mfront run is a real forked process executing the real
MFrontLock.cxx (singleton, guard, static destructor); each of its semaphore calls is forwarded to this simulator, which
owns the named semaphore (whose count outlives the processes) and decides, from one seeded PRNG, which process performs
its next call, when the next run starts and which process is killed where."""
import concurrent.futures, hashlib, json, os, signal, socket, subprocess, sys, time
sys.path.insert(0, os.path.join(os.path.dirname(os.path.abspath(__file__)), "..", "lib"))
from common import *
import orch

PID = "C46"
INITIAL = 1   # value the lock is created with (sem_open(..., 1))


class SM64:
    def __init__(self, seed):
        self.s = (seed * 0x9E3779B97F4A7C15 + 0x1234567) & 0xFFFFFFFFFFFFFFFF
        self.next(); self.next()

    def next(self):
        self.s = (self.s + 0x9E3779B97F4A7C15) & 0xFFFFFFFFFFFFFFFF
        z = self.s
        z = ((z ^ (z >> 30)) * 0xBF58476D1CE4E5B9) & 0xFFFFFFFFFFFFFFFF
        z = ((z ^ (z >> 27)) * 0x94D049BB133111EB) & 0xFFFFFFFFFFFFFFFF
        return z ^ (z >> 31)

    def range(self, lo, hi):
        return lo + self.next() % (hi - lo + 1)

    def chance(self, num, den):
        return self.next() % den < num


def build():
    out = os.path.join(BUILD, PID)
    os.makedirs(out, exist_ok=True)
    inc = REPO_INC + ["-I" + os.path.join(REPO, "mfront/include")] + tfel_inc()
    flags = ["-O1", "-g"] + inc
    h = os.path.join(VERIF, "harness/C46")
    units = [(os.path.join(h, "lockdrv.cpp"), flags), (os.path.join(REPO, "mfront/src/MFrontLock.cxx"), flags), (os.path.join(REPO, "mfront/src/MFrontLogStream.cxx"), flags),
             (os.path.join(REPO, "src/Exception/TFELException.cxx"), flags), (os.path.join(REPO, "src/System/System.cxx"), flags), (os.path.join(REPO, "src/System/SystemError.cxx"), flags),
             (os.path.join(h, "semshim.c"), ["-O1", "-g", "-fPIC"])]
    objs = compile_objects(out, units)
    drv = link(os.path.join(out, "lockdrv"), objs, [])
    so = os.path.join(out, "libsemshim.so")
    r = run(["gcc", "-shared", "-fPIC", "-O1", "-o", so, os.path.join(h, "semshim.c")])
    if r.returncode != 0:
        log(r.stderr); raise SystemExit(2)
    return drv, so


# ------------------------------------------------------------------ plans
def gen_plan(seed, tier):
    r = SM64(seed)
    nruns = r.range(2, 8 if tier else 6)
    seq = r.range(0, nruns - 1) if r.chance(2, 3) else 0
    runs = []
    for i in range(nruns):
        toks = []
        nsec = r.range(0, 3)
        if nsec == 0 and r.chance(1, 2):
            nsec = 1   # the real mfront always touches the lock; lock-free runs are kept as a minority
        for s in range(nsec):
            if r.chance(1, 3):
                toks.append("N%d" % r.range(1, 2))
            toks.append("S%d" % r.range(0, 2))
        if not toks:
            toks.append("N%d" % r.range(0, 2))
        runs.append(toks)
    if r.chance(1, 3):   # the runs of the history are made from two working directories (two projects built at the same time by the same user)
        for t in runs:
            if r.chance(1, 2):
                t.insert(0, "D1")
    faults = []
    if r.chance(1, 3):
        for _ in range(r.range(1, 2)):
            faults.append([r.range(0, nruns - 1), r.range(0, 10)])
    if r.chance(1, 4):   # a blocked sem_wait of one run is interrupted by a signal (mfront embedded in an application that installs handlers)
        for _ in range(r.range(1, 3)):
            faults.append([r.range(0, nruns - 1), r.range(1, 8), 1])
    if r.chance(1, 5):   # sem_open fails in one run (descriptor or memory exhaustion at that instant)
        faults.append([r.range(0, nruns - 1), 0, 2])
    if r.chance(1, 4):   # a run blocked in sem_wait receives SIGTERM
        for _ in range(r.range(1, 2)):
            faults.append([r.range(0, nruns - 1), r.range(1, 8), 3])
    return {"params": [seq], "runs": runs, "faults": faults}


def describe(plan):
    s = "sequential_prefix=%d (D1 = run made from a second working directory) runs:" % plan["params"][0]
    for i, t in enumerate(plan["runs"]):
        s += " r%d[%s]" % (i, " ".join(t))
    for f in plan["faults"]:
        s += (" fault:SIGTERM(run %d, while blocked at its request #%d)" if len(f) >= 3 and f[2] == 3 else " fault:sem_open-fails(run %d%.0s)" if len(f) >= 3 and f[2] == 2 else " fault:EINTR(run %d, blocked wait at its request #%d)" if len(f) >= 3 and f[2] == 1 else " fault:kill(run %d at its request #%d)") % (f[0], f[1])
    return s


# ------------------------------------------------------------------ one simulated history
class Proc:
    def __init__(self, idx, popen, sock):
        self.idx, self.popen, self.sock = idx, popen, sock
        self.buf = b""
        self.pending = None     # request line waiting to be granted
        self.nreq = 0
        self.live = True
        self.killed = False


def read_request(p):
    """next request line of the process, or None at EOF (process ended)"""
    while b"\n" not in p.buf:
        try:
            d = p.sock.recv(256)
        except ConnectionResetError:
            d = b""
        if not d:
            return None
        p.buf += d
    line, p.buf = p.buf.split(b"\n", 1)
    return line.decode()


def run_history(plan, seed, decisions, launcher):
    """launcher(i, tokens, child_sock) -> Popen.  decisions: None (PRNG) or list (replay, modulo, exhausted -> 0)"""
    rng = SM64(seed ^ 0x5bd1e995)
    dec_out, pos = [], [0]

    def choose(n):
        if decisions is None:
            k = rng.next() % n
        else:
            k = (decisions[pos[0]] % n) if pos[0] < len(decisions) else 0
            pos[0] += 1
        dec_out.append(k)
        return k

    seq = plan["params"][0] if plan["params"] else 0
    runs = plan["runs"]
    faults = {(f[0], f[1]) for f in plan["faults"] if len(f) >= 2 and (len(f) < 3 or f[2] == 0)}     # kill before the request
    efaults = {(f[0], f[1]) for f in plan["faults"] if len(f) >= 3 and f[2] == 1}                     # a blocked sem_wait is interrupted by a signal (EINTR)
    ofaults = {f[0] for f in plan["faults"] if len(f) >= 3 and f[2] == 2}
    tfaults = {(f[0], f[1]) for f in plan["faults"] if len(f) >= 3 and f[2] == 3}                     # SIGTERM (Ctrl-C, time limit of a driver) sent to a run blocked in sem_wait                             # sem_open of that run fails (EMFILE / ENFILE / ENOMEM ...)
    procs = {}
    nxt = 0
    # named semaphores: a name designates an object until it is unlinked; processes keep the object they opened
    objs = []             # values of the semaphore objects ever created
    names = {}            # name -> index in objs
    alias = {}            # name -> "name#k" (trace)
    pobj = {}             # run index -> object opened by that process
    count = None          # value of the object currently designated by the name (None: no such name), for reports
    holders = set()       # processes between "guard constructed" and "guard destroyed" (markers)
    wholders = set()      # processes between a granted sem_wait and their next sem_post (second, marker-free view)
    trace = []
    ctr = {}
    abs_states = set()
    violation = None
    max_conc = 0
    steps = 0

    def bump(k, d=1):
        ctr[k] = ctr.get(k, 0) + d

    def fetch(p):
        req = read_request(p)
        if req is None:
            p.live = False
            p.popen.wait()
            p.sock.close()
            trace.append("exit r%d status=%s" % (p.idx, p.popen.returncode))
            bump("process_exit_normal" if p.popen.returncode == 0 else "process_exit_abnormal")
            if p.idx in wholders:
                bump("exit_while_holding")   # never happens with the RAII guard; kept as a probe
        else:
            p.pending = req
            p.nreq += 1

    try:
        while violation is None:
            live = [p for p in procs.values() if p.live]
            actions = []
            can_start = False
            if nxt < len(runs):
                if nxt < seq:
                    can_start = not live                                          # sequential prefix: one run at a time, each runs to completion
                else:
                    can_start = all(not p.live for p in procs.values() if p.idx < seq)   # the concurrent phase starts after the prefix
            if can_start:
                actions.append(("start", nxt))
            for p in live:
                if p.pending is None:
                    continue
                blocked = p.pending[0] in "WX" and not (p.idx in pobj and objs[pobj[p.idx]] > 0)
                if blocked and p.pending.startswith("X"):
                    actions.append(("timeout", p.idx))   # the simulated clock may pass the deadline of a timed wait at any time
                if blocked and (p.idx, p.nreq - 1) in tfaults:
                    actions.append(("sigterm", p.idx))
                if blocked and (p.idx, p.nreq - 1) in efaults:
                    actions.append(("eintr", p.idx))     # a signal whose handler was installed without SA_RESTART interrupts the blocked wait
                if blocked:
                    continue
                actions.append(("grant", p.idx))
            if not actions:
                break
            outside = None
            steps += 1
            if steps > 5000:
                violation = ("no-progress", "step budget exhausted")
                break
            a = actions[choose(len(actions))]
            if a[0] == "start":
                i = nxt; nxt += 1
                ps, cs = socket.socketpair()
                po = launcher(i, runs[i], cs)
                cs.close()
                p = Proc(i, po, ps)
                procs[i] = p
                trace.append("start r%d" % i)
                bump("process_started")
                fetch(p)
            elif a[0] == "sigterm":
                # a terminating signal reaches the process while it waits for the lock.  With the default disposition the process dies there
                # (it holds nothing).  Code that installs a handler runs it now, on top of the blocked sem_wait: whatever semaphore call the
                # handler makes reaches the simulator as a new request of that process, and is served before the process dies or goes on.
                import select
                p = procs[a[1]]
                tfaults.discard((p.idx, p.nreq - 1))
                trace.append("r%d %s: SIGTERM delivered while blocked" % (p.idx, p.pending))
                bump("sigterm_while_blocked_in_sem_wait")
                os.kill(p.popen.pid, signal.SIGTERM)
                deadline = time.time() + 5.0
                while True:
                    rl, _, _ = select.select([p.sock], [], [], max(0.0, deadline - time.time()))
                    if not rl:
                        trace.append("r%d survived the signal and still waits" % p.idx)   # handler that neither dies nor talks: the wait goes on
                        break
                    req2 = read_request(p)
                    if req2 is None:
                        p.live = False; p.killed = True; p.pending = None
                        p.popen.wait(); p.sock.close()
                        trace.append("exit r%d status=%s (terminated by the signal)" % (p.idx, p.popen.returncode))
                        bump("process_terminated_by_sigterm")
                        break
                    o = pobj.get(p.idx)
                    trace.append("r%d %s (from its signal handler)" % (p.idx, req2))
                    bump("semaphore_calls_from_a_signal_handler")
                    if req2[0] == "P":
                        if o is not None:
                            objs[o] += 1
                        if p.idx in wholders:
                            wholders.discard(p.idx)
                        else:
                            bump("post_without_wait")
                        p.sock.sendall(b"K")
                    elif req2[0] == "G":
                        import struct
                        p.sock.sendall(b"V" + struct.pack("<i", objs[o] if o is not None else 0))
                    else:
                        p.sock.sendall(b"K" if req2[0] in "CM" else b"E")
            elif a[0] == "eintr":
                p = procs[a[1]]
                trace.append("r%d %s -> EINTR (interrupted by a signal)" % (p.idx, p.pending))
                bump("blocked_wait_interrupted_EINTR")
                efaults.discard((p.idx, p.nreq - 1))
                p.pending = None
                p.sock.sendall(b"I")
                fetch(p)
            elif a[0] == "timeout":
                p = procs[a[1]]
                trace.append("r%d %s -> ETIMEDOUT (simulated clock)" % (p.idx, p.pending))
                bump("timed_wait_timeout_fired")
                p.pending = None
                p.sock.sendall(b"T")
                fetch(p)
            else:
                p = procs[a[1]]
                req = p.pending
                if (p.idx, p.nreq - 1) in faults:
                    # injected fault: the process is killed when about to perform this request (no destructor runs)
                    os.kill(p.popen.pid, signal.SIGKILL)
                    p.popen.wait(); p.sock.close(); p.live = False; p.killed = True; p.pending = None
                    inside = p.idx in holders
                    trace.append("kill r%d before '%s'%s" % (p.idx, req, " (inside a section)" if inside else ""))
                    bump("kill_inside_section" if inside else "kill_outside_section")
                else:
                    reply = b"K"
                    k = req[0]
                    o = pobj.get(p.idx)
                    if k == "O" and p.idx in ofaults:
                        reply = b"E"; ofaults.discard(p.idx); bump("sem_open_failure_injected")
                    elif k == "O":
                        parts = req.split()
                        nm = parts[1] if len(parts) > 1 else "?"
                        if nm in names:
                            pobj[p.idx] = names[nm]
                        elif len(parts) >= 4 and parts[2] == "1":
                            objs.append(int(parts[3])); names[nm] = len(objs) - 1; pobj[p.idx] = names[nm]
                            bump("semaphore_created")
                        else:
                            reply = b"E"
                    elif k == "U":
                        nm = req.split()[1] if len(req.split()) > 1 else "?"
                        if nm in names:
                            del names[nm]; bump("semaphore_unlinked")
                        else:
                            reply = b"E"
                    elif k in "WX":
                        objs[o] -= 1
                        wholders.add(p.idx)
                    elif k == "T":
                        if o is not None and objs[o] > 0:
                            objs[o] -= 1; wholders.add(p.idx)
                        else:
                            reply = b"A"
                    elif k == "P":
                        if o is not None:
                            objs[o] += 1
                        if p.idx in wholders:
                            wholders.discard(p.idx)
                        else:
                            bump("post_without_wait")
                    elif k == "G":
                        import struct
                        reply = b"V" + struct.pack("<i", objs[o] if o is not None else 0)
                        bump("sem_getvalue_calls")
                    elif k == "M":
                        m = req[2:]
                        if m == "ENTER":
                            holders.add(p.idx)
                        elif m == "EXIT":
                            holders.discard(p.idx)
                        elif m.startswith("REG"):
                            bump("registry_accesses_announced")
                            if p.idx not in wholders:
                                outside = (p.idx, m)
                    treq = req
                    if k in "OU" and len(req.split()) > 1:
                        # the text of a name is not part of the property (and may legitimately depend on the environment of the run): the trace
                        # records which name it is, in order of first appearance
                        parts = req.split()
                        alias.setdefault(parts[1], "name#%d" % len(alias))
                        parts[1] = alias[parts[1]]
                        treq = " ".join(parts)
                    trace.append("r%d %s%s" % (p.idx, treq, "" if reply[:1] in (b"K", b"V") else " -> error"))
                    p.pending = None
                    p.sock.sendall(reply)
                    fetch(p)
            conc = len([q for q in procs.values() if q.live])
            max_conc = max(max_conc, conc)
            count = objs[sorted(names.values())[0]] if names else None
            blocked = len([q for q in procs.values() if q.live and q.pending and q.pending[0] in "WX" and not (q.idx in pobj and objs[pobj[q.idx]] > 0)])
            abs_states.add((min(count if count is not None else -1, 3), len(holders), len(wholders), min(blocked, 3), min(conc, 4)))
            if any(v + sum(1 for h in wholders if pobj.get(h) == i) > INITIAL for i, v in enumerate(objs)):
                bump("conservation_broken_steps")
            if len(objs) > 1:
                bump("steps_with_several_semaphore_objects")
            if len(alias) > 1:
                bump("steps_with_several_semaphore_names")
            if outside is not None and violation is None:
                what = {"REGOPENR": "opens src/targets.lst for reading", "REGOPENW": "opens (truncates) src/targets.lst for writing", "REGWRITE": "writes to src/targets.lst", "REGCLOSE": "closes (flushes) src/targets.lst"}.get(outside[1], outside[1])
                violation = ("protected-file-accessed-outside-the-lock", "run %d %s while it does not hold the lock (holders of the semaphore at that instant: %s)" % (outside[0], what, sorted(wholders)))
            elif len(holders) > INITIAL:
                violation = ("mutual-exclusion", "%d processes inside a lock-protected section at once: runs %s (semaphore value %s)" % (len(holders), sorted(holders), count))
            elif len(wholders) > INITIAL:
                violation = ("mutual-exclusion", "%d processes hold the semaphore at once: runs %s (semaphore value %s)" % (len(wholders), sorted(wholders), count))
        left = [p for p in procs.values() if p.live]
        if left and violation is None:
            bump("histories_ending_with_blocked_processes")
    finally:
        for p in procs.values():
            if p.live:
                try:
                    os.kill(p.popen.pid, signal.SIGKILL)
                except ProcessLookupError:
                    pass
                p.popen.wait()
                p.sock.close()
    clean_shm()
    h = hashlib.sha256("\n".join(trace).encode()).hexdigest()[:16]
    sh = hashlib.sha256(",".join(map(str, dec_out)).encode()).hexdigest()[:16]
    if max_conc >= 2:
        bump("histories_with_concurrent_processes")
    if seq >= 1 and max_conc >= 2:
        bump("histories_with_completed_run_before_concurrent_phase")
    return {"cls": violation[0] if violation else "ok", "detail": violation[1] if violation else "", "hash": h, "shash": sh, "steps": steps,
            "ctr": ctr, "abs": sorted(abs_states), "decisions": dec_out, "trace": trace, "final_count": count}


SHM_TOKEN = "vsim46-%07d-" % os.getpid()   # POSIX shared-memory objects opened by the runs are private to this simulator process and removed after every history


def clean_shm():
    import glob
    for f in glob.glob("/dev/shm/" + SHM_TOKEN + "*"):
        try:
            os.unlink(f)
        except OSError:
            pass


def split_dir(tokens):
    """(directory index, remaining tokens): a leading D<k> token selects the working directory of the run"""
    if tokens and tokens[0][:1] == "D" and tokens[0][1:].isdigit():
        return int(tokens[0][1:]) % 2, tokens[1:]
    return 0, tokens


def drv_launcher(drv):
    dirs = [os.path.join(BUILD, PID, "cwd%d" % k) for k in range(2)]
    for d in dirs:
        os.makedirs(d, exist_ok=True)
    def launch(i, tokens, cs):
        env = {"VSIM_SEM_FD": str(cs.fileno()), "PATH": "/usr/bin:/bin", "VSIM_SHM_TOKEN": SHM_TOKEN}
        k, tokens = split_dir(tokens)
        return subprocess.Popen([drv] + (tokens or ["N0"]), cwd=dirs[k], pass_fds=[cs.fileno()], env=env, stdin=subprocess.DEVNULL, stdout=subprocess.DEVNULL, stderr=subprocess.DEVNULL)
    return launch


REAL_CORPUS = ["YoungModulusTest.mfront", "PoissonRatioTest.mfront", "ErrnoHandlingCheck.mfront", "YoungModulusBoundsCheck.mfront", "T91MartensiticSteel_ThermalExpansion_ROUX2007.mfront", "VanadiumAlloy_PoissonRatio_SRMA.mfront"]


def real_corpus():
    d = os.path.join(REPO, "mfront/tests/properties")
    have = [f for f in REAL_CORPUS if os.path.exists(os.path.join(d, f))]
    if len(have) < 3:
        have = sorted(f for f in os.listdir(d) if f.endswith(".mfront"))[:6]
    return [os.path.join(d, f) for f in have]


def mfront_launcher(so, workdir):
    """real mfront binary (private build of the current tree) under the forwarding shim; runs of one history share a directory"""
    mf = os.path.join(TFEL_BUILD, "mfront/src/mfront")
    corpus = real_corpus()
    def launch(i, tokens, cs):
        dk, tokens = split_dir(tokens)
        cwd = workdir
        if dk:
            cwd = os.path.join(workdir, "other-project")
            os.makedirs(cwd, exist_ok=True)
        k = int(tokens[0][1:]) % len(corpus) if tokens and tokens[0][1:].isdigit() else 0
        env = tfel_env()
        env.update({"VSIM_SEM_FD": str(cs.fileno()), "LD_PRELOAD": so, "VSIM_SHM_TOKEN": SHM_TOKEN})
        args = ["--interface=c", corpus[k]]
        if tokens and tokens[0].startswith("B"):   # failing invocations: they end in mfront's error / terminate paths
            bad = os.path.join(workdir, "invalid.mfront")
            if not os.path.exists(bad):
                open(bad, "w").write("@DSL MaterialLaw;\n@Law Broken;\n@Output y;\n@Function{ y = ; \n")
            args = [["--no-such-option"], ["--interface=c", os.path.join(workdir, "does-not-exist.mfront")], ["--interface=c", bad],
                    ["--omake", "-G", "cmake", "--interface=cpptest", os.path.join(VERIF, "behaviours", "BoundedYoungModulus.mfront")]][k % 4]   # the last one fails in the generation stage (inside a lock-protected section)
        return subprocess.Popen([mf] + args, cwd=cwd, pass_fds=[cs.fileno()], env=env, stdin=subprocess.DEVNULL, stdout=subprocess.DEVNULL, stderr=subprocess.DEVNULL)
    return launch


def gen_real_plan(seed):
    r = SM64(seed)
    nruns = r.range(2, 5)
    seq = r.range(0, nruns - 1) if r.chance(2, 3) else 0
    runs = [["F%d" % r.range(0, 5)] if not r.chance(1, 5) else ["B%d" % r.range(0, 3)] for _ in range(nruns)]   # B: an invocation that fails (bad option, missing file, invalid file)
    if r.chance(1, 3):
        for t in runs:
            if r.chance(1, 2):
                t.insert(0, "D1")
    faults = [[r.range(0, nruns - 1), r.range(0, 6)]] if r.chance(1, 4) else []
    if r.chance(1, 4):
        faults.append([r.range(0, nruns - 1), r.range(1, 6), 1])
    if r.chance(1, 5):
        faults.append([r.range(0, nruns - 1), 0, 2])
    if r.chance(1, 4):
        faults.append([r.range(0, nruns - 1), r.range(1, 6), 3])
    return {"params": [seq], "runs": runs, "faults": faults, "real": 1}


# ------------------------------------------------------------------ batch / worker
def worker(argv):
    """internal: checks/C46.py --worker <drv> <tier> <first> <count> <stride>"""
    drv, tier, first, count, stride = argv[0], int(argv[1]), int(argv[2]), int(argv[3]), int(argv[4])
    real = tier >= 10
    launch = drv_launcher(drv)
    for k in range(count):
        seed = first + k * stride
        if real:
            wd = fresh_workdir("C46real.%d" % seed)
            launch = mfront_launcher(drv, wd)   # in real mode argv[0] is the shim library
            plan = gen_real_plan(seed)
        else:
            plan = gen_plan(seed, tier)
        r = run_history(plan, seed, None, launch)
        if real:
            import shutil
            shutil.rmtree(wd, ignore_errors=True)
        r2 = dict(r); r2.pop("trace")
        r2.update(seed=seed, plan=plan, text=describe(plan))
        if r["cls"] != "ok":
            r2["trace"] = r["trace"][-30:]
        print(json.dumps(r2), flush=True)
    return 0


class Launchers:
    """gives the launcher fitting a plan: the lock driver, or the real mfront in a fresh scratch directory"""
    def __init__(self, drv, so):
        self.drv, self.so, self.n = drv, so, 0
        self.d = drv_launcher(drv)

    def run(self, plan, seed, decisions):
        if not plan.get("real"):
            return run_history(plan, seed, decisions, self.d)
        import shutil
        self.n += 1
        wd = fresh_workdir("C46real.%d.%d" % (seed, self.n))
        try:
            return run_history(plan, seed, decisions, mfront_launcher(self.so, wd))
        finally:
            shutil.rmtree(wd, ignore_errors=True)


def minimise(rec, L, budget=300):
    plan = {"params": list(rec["plan"]["params"]), "runs": [list(t) for t in rec["plan"]["runs"]], "faults": [list(f) for f in rec["plan"]["faults"]]}
    dec = list(rec["decisions"])
    cls = rec["cls"]
    b = [budget]

    if rec["plan"].get("real"):
        plan["real"] = 1

    def same(p, d):
        return L.run(p, rec["seed"], d)["cls"] == cls

    if not same(plan, dec):
        return None
    # runs: removing a run renumbers the following ones; faults refer to run indices -> remap
    def without_run(p, i):
        q = dict(p, params=[max(0, p["params"][0] - (1 if i < p["params"][0] else 0))], runs=[t for j, t in enumerate(p["runs"]) if j != i],
                 faults=[[f[0] - (1 if f[0] > i else 0), f[1]] + list(f[2:]) for f in p["faults"] if f[0] != i])
        return q
    changed = True
    while changed and b[0] > 0:
        changed = False
        for i in range(len(plan["runs"]) - 1, -1, -1):
            if len(plan["runs"]) <= 1 or b[0] <= 0:
                break
            b[0] -= 1
            q = without_run(plan, i)
            if same(q, dec):
                plan = q; changed = True
    plan["faults"] = orch.ddmin(plan["faults"], lambda fs: same(dict(plan, faults=fs), dec), b, par=1)
    for i in range(len(plan["runs"]) if not plan.get("real") else 0):
        toks = orch.ddmin(plan["runs"][i], lambda ts: bool(ts) and same(dict(plan, runs=plan["runs"][:i] + [ts] + plan["runs"][i + 1:]), dec), b, par=1)
        plan["runs"][i] = toks
        # shrink step counts inside tokens
        for j in range(len(plan["runs"][i])):
            t = plan["runs"][i][j]
            while int(t[1:]) > 0 and b[0] > 0:
                b[0] -= 1
                t2 = t[0] + str(int(t[1:]) - 1)
                cand = plan["runs"][:i] + [plan["runs"][i][:j] + [t2] + plan["runs"][i][j + 1:]] + plan["runs"][i + 1:]
                if same(dict(plan, runs=cand), dec):
                    plan["runs"] = cand; t = t2
                else:
                    break
    while plan["params"][0] > 0 and b[0] > 0:
        b[0] -= 1
        q = dict(plan, params=[plan["params"][0] - 1])
        if same(q, dec):
            plan = q
        else:
            break
    lo, hi = 0, len(dec)
    while lo < hi and b[0] > 0:
        mid = (lo + hi) // 2
        b[0] -= 1
        if same(plan, dec[:mid]):
            hi = mid
        else:
            lo = mid + 1
    if same(plan, dec[:hi]):
        dec = dec[:hi]
    for i in range(len(dec)):
        if dec[i] and b[0] > 0:
            b[0] -= 1
            d2 = list(dec); d2[i] = 0
            if same(plan, d2):
                dec = d2
    while dec and dec[-1] == 0:
        dec.pop()
    fin = L.run(plan, rec["seed"], dec)
    if fin["cls"] != cls:
        return None
    return {"property": PID, "seed": rec["seed"], "plan": plan, "decisions": dec, "class": cls, "detail": fin["detail"], "hash": fin["hash"], "text": describe(plan),
            "trace": fin["trace"], "original": {"runs": len(rec["plan"]["runs"]), "faults": len(rec["plan"]["faults"]), "decisions": len(rec["decisions"])},
            "minimised": {"runs": len(plan["runs"]), "faults": len(plan["faults"]), "decisions": len(dec)}, "replays": budget - b[0]}


def main():
    if len(sys.argv) > 1 and sys.argv[1] == "--worker":
        return worker(sys.argv[2:])
    args = parse_args(PID)
    t0 = time.time()
    drv, so = build()
    ensure_tfel(("mfront",))
    L = Launchers(drv, so)
    if args.replay:
        rep = json.load(open(args.replay))
        r = L.run(rep["plan"], rep["seed"], rep.get("decisions"))
        log("replay: class=%s hash=%s %s" % (r["cls"], r["hash"], describe(rep["plan"])))
        for l in r["trace"]:
            log("   " + l)
        if r["cls"] != "ok":
            log("replay: " + r["detail"])
            log("VIOLATION property=%s replay=%s" % (PID, os.path.abspath(args.replay)))
            return 1
        return 0
    tier = 0 if args.tier == "quick" else 1
    total = args.runs or (1600 if tier == 0 else 10000)   # per round; the thorough tier repeats rounds until its time box is used up
    total_real = 96 if tier == 0 else 400
    budget = args.budget or (900 if tier else 0)
    base = args.seed * 1000000
    records = []
    rounds = 0
    me = os.path.abspath(__file__)
    while True:
        def one(w):
            real = w >= NPROC
            w = w % NPROC
            cnt = ((total_real if real else total) - w + NPROC - 1) // NPROC
            if cnt <= 0:
                return []
            p = subprocess.run([sys.executable, me, "--worker", so if real else drv, str(10 if real else tier), str(base + rounds * total + w + (500000 if real else 0)), str(cnt), str(NPROC)], stdout=subprocess.PIPE, stderr=subprocess.PIPE, text=True)
            out = [json.loads(l) for l in p.stdout.splitlines() if l.startswith("{")]
            if p.returncode != 0:
                out.append({"cls": "machinery", "detail": p.stderr[-500:], "seed": -1})
            return out
        with concurrent.futures.ThreadPoolExecutor(max_workers=NPROC) as ex:
            for out in ex.map(one, range(2 * NPROC)):
                records.extend(out)
        rounds += 1
        if tier == 0 or time.time() - t0 > budget or sum(1 for r in records if r["cls"] != "ok") > 20:
            break
    if any(r["cls"] == "machinery" for r in records):
        log("MACHINERY ERROR: a worker failed: %s" % [r["detail"] for r in records if r["cls"] == "machinery"][0])
        return 2
    t_explore = time.time() - t0
    # determinism: re-run a sample in this process (different process, different partition)
    sample = sorted(records, key=lambda r: r["seed"])[::25][:200]
    for r in sample:
        r2 = L.run(r["plan"], r["seed"], None)
        if (r2["cls"], r2["hash"]) != (r["cls"], r["hash"]):
            log("MACHINERY ERROR: history seed %d not reproduced (%s/%s vs %s/%s)" % (r["seed"], r["cls"], r["hash"], r2["cls"], r2["hash"]))
            return 2
    viol = [r for r in records if r["cls"] != "ok"]
    known = load_known(PID)
    exit_code, reported = 0, []
    groups = {}
    for r in viol:
        sig = r["cls"] + (":real-mfront" if r["plan"].get("real") else "") + (":after-normal-exit" if r["ctr"].get("post_without_wait") else "") + (":with-kill" if any(k.startswith("kill_") for k in r["ctr"]) else "")
        groups.setdefault((r["cls"], sig), []).append(r)
    rd = replay_dir(PID)
    for (cls, sig) in sorted(groups):
        g = sorted(groups[(cls, sig)], key=lambda r: (len(r["decisions"]), r["seed"]))
        rec = g[0]
        mini = minimise(rec, L)
        if mini is None:
            log("MACHINERY ERROR: violation of seed %d did not reproduce" % rec["seed"]); return 2
        path = os.path.join(rd, "%s_%s_%d.json" % (cls, sha(sig)[:8], rec["seed"]))
        mini["signature"] = sig
        json.dump(mini, open(path, "w"), indent=1)
        # gate: fresh process replay must give the same class and hash
        p = subprocess.run([sys.executable, me, "--replay", path], stdout=subprocess.PIPE, stderr=subprocess.PIPE, text=True, env=dict(os.environ, VERIF_NO_BUILD="1"))
        if ("class=%s hash=%s" % (cls, mini["hash"])) not in p.stdout:
            log("MACHINERY ERROR: fresh-process replay of %s differs: %s" % (path, p.stdout[-300:])); return 2
        kf = match_known(known, cls, sig)
        entry = {"class": cls, "signature": sig, "count": len(g), "first_seed": rec["seed"], "replay": path, "detail": mini["detail"], "minimised": mini["minimised"], "original": mini["original"], "history": mini["text"], "trace": mini["trace"]}
        if kf:
            entry["known_finding"] = kf.get("id", "")
            log("KNOWN-FINDING: property=%s %s [%d histories; replay=%s]" % (PID, kf.get("what", sig), len(g), path))
        else:
            exit_code = 1
            log("VIOLATION property=%s replay=%s" % (PID, path))
            log("  class=%s signature=%s histories=%d/%d" % (cls, sig, len(g), len(records)))
            log("  %s" % mini["detail"])
            log("  minimised %s -> %s in %d replays: %s" % (mini["original"], mini["minimised"], mini["replays"], mini["text"]))
            for l in mini["trace"]:
                log("     " + l)
        reported.append(entry)
    ctr, runs_with = {}, {}
    for r in records:
        for k, v in r["ctr"].items():
            ctr[k] = ctr.get(k, 0) + v
            runs_with[k] = runs_with.get(k, 0) + 1
    abs_states = {tuple(a) for r in records for a in r["abs"]}
    nontrivial = [r for r in records if r["ctr"].get("histories_with_concurrent_processes") or r["ctr"].get("kill_inside_section") or r["ctr"].get("kill_outside_section")]
    wall = time.time() - t0
    coverage = {
        "evaluations": len(records),
        "distinct_nontrivial": len({r["hash"] for r in nontrivial}),
        "rule": "one history = 2..6 (quick) / 2..8 (thorough) simulated mfront runs (scripts of lock-protected sections and steps), a sequential prefix of runs that complete before the concurrent phase, "
                "planned kills, under one seeded schedule of process starts and semaphore calls; non-trivial = at least two processes alive at once or a kill fired; distinct = distinct hash of the event trace",
        "samples": [{"seed": r["seed"], "history": r["text"], "steps": r["steps"], "final_semaphore_value": r["final_count"]} for r in (records[:4] + [x for x in records if x["plan"].get("real")][:2])],
        "histories_with_real_mfront_binary": sum(1 for r in records if r["plan"].get("real")),
        "exhaustive": False,
        "histories_ok": len(records) - len(viol), "histories_violating": len(viol),
        "processes_forked": ctr.get("process_started", 0),
        "simulated_steps_total": sum(r["steps"] for r in records),
        "histories_per_hour": int(len(records) / max(t_explore, 1e-3) * 3600),
        "fault_and_event_counters_fired": dict(sorted(ctr.items())),
        "histories_in_which_fired": dict(sorted(runs_with.items())),
        "distinct_interleavings": len({r["shash"] for r in records}),
        "distinct_abstract_states": len(abs_states),
        "abstract_state_measure": "(semaphore value capped at 3, processes inside a section, processes holding the semaphore, blocked processes, live processes)",
        "determinism_resampled_histories": len(sample),
        "components": {"real": ["mfront/src/MFrontLock.cxx (singleton construction, lock/unlock, guard, static destructor)", "process start / exit / kill (real forked processes)",
                                "the real mfront binary built from the tree, on real .mfront files sharing one directory (a share of the histories): its real lock-protected sections"],
                       "simulated": ["the named POSIX semaphore (count, blocking, persistence across processes)", "the schedule of processes"]},
        "findings": reported,
    }
    assumptions = ["the named semaphore follows POSIX: created with the given value only if it does not exist yet, count persists across process exits, a killed process runs no destructor",
                   "mutual exclusion is judged on the number of processes between guard construction and guard destruction (markers) and, independently, between a granted sem_wait and the next sem_post of the same process",
                   "a process blocked for ever is not a violation of this (safety) property; such histories are only counted"]
    if not args.no_evidence:
        write_evidence(PID, args.tier, args.seed, "exploration", coverage, assumptions, wall, sum(1 for e in reported if "known_finding" not in e))
    log("%s %s: %d histories (%d violating), %d processes, %d distinct non-trivial traces, %d abstract states, %.1fs" % (PID, args.tier, len(records), len(viol), ctr.get("process_started", 0), coverage["distinct_nontrivial"], len(abs_states), wall))
    return exit_code


if __name__ == "__main__":
    sys.exit(main())
