#!/usr/bin/env python3
"""C29 — ThreadPool runs every task exactly once and wait() is complete (DESIGN.md §3 C29)."""
import os, sys
sys.path.insert(0, os.path.join(os.path.dirname(os.path.abspath(__file__)), "..", "lib"))
from common import *
import orch

PID = "C29"


def build():
    out = os.path.join(BUILD, PID)
    flags = ["-O1", "-g", "-DTFEL_VERIF"] + SAN + REPO_INC + tfel_inc()
    units = [(os.path.join(VERIF, "harness/C29/h29.cpp"), flags), (os.path.join(VERIF, "sim/vsim.cpp"), flags),
             (os.path.join(REPO, "src/System/ThreadPool.cxx"), flags), (os.path.join(REPO, "src/System/ThreadedTaskResult.cxx"), flags)]
    objs = compile_objects(out, units)
    res = {"asan": link(os.path.join(out, "h29"), objs, SAN + ["-rdynamic", "-ldl", "-lpthread"])}
    # race variant: the same sources compiled with -fsanitize=thread but linked against the simulator's own implementation of
    # the __tsan_* entry points (sim/vsim.cpp -DVSIM_RACE, a shared object): every plain memory access of ThreadPool.cxx /
    # ThreadPool.ixx is checked for a happens-before order, independently of the TFEL_VERIF annotations
    rflags = ["-O1", "-g", "-fsanitize=thread", "-DVSIM_RACE"] + REPO_INC + tfel_inc()
    so = build_vsim_race(out)
    robjs = compile_objects(os.path.join(out, "race"), [(u[0], rflags) for u in units if not u[0].endswith("vsim.cpp")])
    res["race"] = link(os.path.join(out, "h29_race"), robjs, ["-rdynamic", so, "-Wl,-rpath," + os.path.dirname(so), "-ldl", "-lpthread"])
    return res


def signature(rec):
    # what identifies "the same" violation: its invariant id and whether several client threads were involved
    nclients = rec.get("plan", {}).get("params", [1, 1])[1:2]
    multi = "multi-client" if nclients and nclients[0] > 1 and any(o[0] != 0 for o in rec.get("plan", {}).get("ops", []) if o) else "single-client"
    return "%s:%s" % (rec["cls"], multi)


def main():
    args = parse_args(PID)
    spec = dict(
        pid=PID, level="exploration", binaries=build(), runs={"quick": 24000, "thorough": 200000}, variant_runs={"race": 6000} if args.tier == "quick" else {}, thorough_budget_s=900,
        signature=signature, param_min=[1, 1, 0],
        nontrivial=lambda r: r.get("ctr", {}).get("context_switches", 0) >= 3 and r.get("events", 0) >= 8,
        rule="one run = one seeded workload (workers, client threads, addTask/wait/yield ops, task flavours, planned spurious wake-ups) under one seeded schedule; "
             "non-trivial = at least one task or wait() and >= 3 context switches; distinct = distinct hash of the scheduler's choice sequence",
        assumptions=["the simulator's mutex/condition-variable/thread model follows POSIX (notify_one may wake any waiter, spurious wake-ups allowed)",
                     "scheduling points exist only at intercepted pthread calls and at explicit yields in task bodies",
                     "misuse excluded: wait() from inside a task, addTask racing the destructor, ThreadPool(0)"],
        components={"real": ["src/System/ThreadPool.cxx", "src/System/ThreadedTaskResult.cxx", "include/TFEL/System/ThreadPool.ixx", "libstdc++ std::thread/packaged_task/future/condition_variable"],
                    "simulated": ["pthread mutex, condition variable, thread create/join", "scheduler"]},
        required_probes=["runs_multi_client", "runs_single_client", "destructor_entered_with_queued_tasks", "spurious_wakeup_fired", "mutex_contended"],
    )
    return orch.run_sim_check(spec, args)


if __name__ == "__main__":
    sys.exit(main())
