#!/usr/bin/env python3
"""C40 — a failed behaviour integration leaves the output state untouched (DESIGN.md §3 C40). Mock tier: fault plan
enumerated completely through the real Integrate.hxx and the three strain-measure / finite-strain wrappers."""
import os, sys
sys.path.insert(0, os.path.join(os.path.dirname(os.path.abspath(__file__)), "..", "lib"))
from common import *
import enumcheck

PID = "C40"


def build():
    out = os.path.join(BUILD, PID)
    flags = ["-O1", "-g"] + SAN + REPO_INC + ["-I" + os.path.join(REPO, "mfront/include")] + tfel_inc()
    h = os.path.join(VERIF, "harness/C40")
    units = [(os.path.join(h, "h40_case.cpp"), flags + ["-DHYP_INDEX=%d" % k]) for k in range(4)]
    units.append((os.path.join(h, "h40_main.cpp"), flags))
    for f in ("src/Exception/ContractViolation.cxx", "src/Utilities/GenTypeCastError.cxx", "src/Math/LUException.cxx", "src/Exception/TFELException.cxx",
              "src/Math/MathException.cxx", "src/Material/LogarithmicStrainHandler.cxx"):
        units.append((os.path.join(REPO, f), flags))
    # compile_objects names objects after the source: the four case units need distinct names -> compile them through symlinks
    os.makedirs(out, exist_ok=True)
    u2 = []
    for i, (src, fl) in enumerate(units):
        if src.endswith("h40_case.cpp"):
            ln = os.path.join(out, "h40_case_%d.cpp" % i)
            if os.path.lexists(ln):
                os.remove(ln)
            os.symlink(src, ln)
            u2.append((ln, fl + ["-I" + h]))
        else:
            u2.append((src, fl))
    objs = compile_objects(out, u2)
    return link(os.path.join(out, "h40"), objs, SAN)


def signature(rec):
    return "%s stage=%s" % (rec.get("wrapper", "?"), rec.get("stage", "?")) if rec.get("case") else rec.get("detail", "")[:100]


def main():
    args = parse_args(PID)
    spec = dict(
        pid=PID, level="fault_enumeration", binary=build(),
        shards={"quick": [[]], "thorough": [[]]},
        signature=signature, exhaustive={"quick": True, "thorough": True}, nontrivial_key="fault_reached", fault_kinds_key="failed_by_stage",
        rule="complete enumeration of (wrapper: direct / logarithmic strain / Green-Lagrange / standard finite strain) x (4 modelling hypotheses) x "
             "(failing stage: initialize, checkBounds, a-priori factor, integrate, a-posteriori factor, tangent operator, internal energy, dissipated energy, speed of sound, none) x "
             "(failure mode: returns failure / throws std::exception / throws something else) x (11 values of K[0]) x (3 stress measures) x (4 tangent flavours) x (time-step reduction requested or not); "
             "non-trivial = the injected fault was actually reached by the call; every case is distinct by construction",
        assumptions=["the mock behaviour implements the interface the real templates require the way generated code does (values are exported only by exportStateData, energies by compute*Energy)",
                     "bitwise comparison of the caller's s1.thermodynamic_forces, s1.internal_state_variables, s1.stored_energy and s1.dissipated_energy before/after; K, rdt, speed_of_sound and error_message may change"],
        components={"real": ["mfront/include/MFront/GenericBehaviour/Integrate.hxx", "LogarithmicStrainIntegrate.hxx", "GreenLagrangeStrainIntegrate.hxx", "StandardFiniteStrainBehaviourIntegrate.hxx", "TFEL/Material/LogarithmicStrainHandler", "TFEL/Math tensor conversions"],
                    "stub": ["the behaviour class (mock with a fault plan)"]},
    )
    return enumcheck.run_enum_check(spec, args)


if __name__ == "__main__":
    sys.exit(main())
