#!/usr/bin/env python3
"""C52 — tfel-check verdicts are independent of parallelism (DESIGN.md §3 C52)."""
import os, re, shutil, sys
sys.path.insert(0, os.path.join(os.path.dirname(os.path.abspath(__file__)), "..", "lib"))
from common import *
import orch

PID = "C52"
WRAP = "-Wl," + ",".join("--wrap=" + s for s in ["pipe", "fork", "write", "read", "close", "waitpid", "kill", "sigaction", "sigprocmask", "open", "open64", "pthread_sigmask"])
# compiled into the executable (anchored code, and the only callers of the wrapped system calls); the rest of libTFELSystem comes from the private build
SYS = ["ProcessManager.cxx", "SignalManager.cxx", "SignalHandler.cxx", "System.cxx", "SystemError.cxx", "ProcessManager-c.c", "ThreadPool.cxx", "ThreadedTaskResult.cxx"]


def build():
    ensure_tfel(("mfront", "tfel-check"))
    out = os.path.join(BUILD, PID)
    inc = REPO_INC + ["-I" + os.path.join(REPO, "tfel-check/include"), "-I" + os.path.join(REPO, "mfront/include")] + tfel_inc()
    flags = ["-O1", "-g", "-DNDEBUG", "-DTFEL_VERIF", "-DVSIM_PROC", "-ftrivial-auto-var-init=pattern", '-DVERSION="verif"', "-DTFEL_ARCH64", "-DHAVE_FENV"] + SAN + inc
    cflags = ["-O1", "-g", "-DNDEBUG"] + SAN + inc
    units = [(os.path.join(VERIF, "harness/C52/h52.cpp"), flags), (os.path.join(VERIF, "sim/vsim.cpp"), flags),
             (os.path.join(REPO, "tfel-check/src/tfel-check.cxx"), flags + ["-Dmain=tfel_check_main", "-DinitDSLs=verifInitDSLsOnce", "-DinitInterfaces=verifInitInterfacesOnce"])]
    tc = os.path.join(REPO, "tfel-check/src")
    units += [(os.path.join(tc, f), flags) for f in sorted(os.listdir(tc)) if f.endswith(".cxx") and f != "tfel-check.cxx"]
    sysd = os.path.join(REPO, "src/System")
    units += [(os.path.join(sysd, f), cflags if f.endswith(".c") else flags) for f in SYS if os.path.exists(os.path.join(sysd, f))]
    objs = compile_objects(out, units)
    redirect_allocator([o for o, (src, fl) in zip(objs, units) if src.startswith(REPO) and src.endswith(".cxx")])
    libs = []
    for d, l in (("mfront/src", "TFELMFront"), ("mfront/src", "MFrontLogStream"), ("src/System", "TFELSystem"), ("src/Math", "TFELMathParser"), ("src/Math", "TFELMathCubicSpline"), ("src/Math", "TFELMath"), ("src/Utilities", "TFELUtilities"),
                 ("src/Glossary", "TFELGlossary"), ("src/UnicodeSupport", "TFELUnicodeSupport"), ("src/Config", "TFELConfig"), ("src/Exception", "TFELException"), ("src/Material", "TFELMaterial")):
        p = os.path.join(TFEL_BUILD, d)
        if os.path.exists(os.path.join(p, "lib%s.so" % l)):
            libs += ["-L" + p, "-Wl,-rpath," + p, "-l" + l]
    # the remaining TFEL libraries (pulled in by libTFELMFront) are found through the rpath of the private build tree
    for d in ("src/System", "src/Math", "src/NUMODIS", "src/Tests", "mtest/src"):
        p = os.path.join(TFEL_BUILD, d)
        if os.path.isdir(p):
            libs += ["-Wl,-rpath," + p, "-Wl,-rpath-link," + p]
    exe = link(os.path.join(out, "h52"), objs, SAN + ["-rdynamic", WRAP] + libs + ["-ldl", "-lpthread"])
    # race variant (see C29): tfel-check's own sources and ThreadPool are compiled with -fsanitize=thread and checked by the simulator's
    # happens-before detector; ProcessManager / SignalManager stay uninstrumented there (their signal-handler protocol is C30's subject)
    wraps = [w[len("--wrap="):] for w in WRAP[len("-Wl,"):].split(",")]
    so = build_vsim_race(out, proc=True, wraps=wraps)
    rplain = ["-O1", "-g", "-DNDEBUG", "-DVSIM_PROC", "-DVSIM_RACE", "-ftrivial-auto-var-init=pattern", '-DVERSION="verif"', "-DTFEL_ARCH64", "-DHAVE_FENV"] + inc
    rinst = rplain + ["-fsanitize=thread"]
    runits = []
    for src, fl in units:
        if src.endswith("vsim.cpp"):
            continue
        base = os.path.basename(src)
        instrumented = src.startswith(tc) or base in ("h52.cpp", "ThreadPool.cxx", "ThreadedTaskResult.cxx")
        extra = [f for f in fl if f.startswith("-Dmain=") or f.startswith("-DinitDSLs") or f.startswith("-DinitInterfaces")]
        runits.append((src, (["-O1", "-g", "-DNDEBUG"] + inc) if src.endswith(".c") else ((rinst if instrumented else rplain) + extra)))
    robjs = compile_objects(os.path.join(out, "race"), runits)
    redirect_allocator([o for o, (src, fl) in zip(robjs, runits) if src.startswith(REPO) and src.endswith(".cxx")])
    rexe = link(os.path.join(out, "h52_race"), robjs, ["-rdynamic", WRAP, so, "-Wl,-rpath," + out] + libs + ["-ldl", "-lpthread"])
    return {"asan": exe, "race": rexe}


def signature(rec):
    cls, d = rec["cls"], rec.get("detail", "")
    if cls in ("memory-error", "crash"):
        m = re.search(r"SUMMARY: \w+: ([\w-]+) (\S+?)(:\d+)* in (.*)", d)
        return "%s in %s" % (m.group(1), m.group(4).strip()[:80]) if m else re.sub(r"0x[0-9a-f]+", "0x?", d)[:120]
    if cls == "self-deadlock" and "allocator re-entered by signal handler" in d:
        m = re.search(r"operator new/delete from ((?:tfel::system::)?[\w:~]+)", d)
        return "allocator re-entered by signal handler in %s" % (m.group(1) if m else "?")
    if cls == "self-deadlock":
        m = re.search(r"locks mutex (\w+)", d)
        return "re-entered " + (m.group(1) if m else "?")
    if cls == "deadlock" and "never terminates" in d:
        return "child of a failed exec never terminates"
    if cls == "deadlock":
        return "deadlock"
    return cls


def main():
    args = parse_args(PID)
    exes = build()
    wd = fresh_workdir(PID)
    try:
        spec = dict(
            pid=PID, level="exploration", binaries={v: (e, ["--workdir", wd]) for v, e in exes.items()}, runs={"quick": 2000, "thorough": 100000}, variant_runs={"race": 600} if args.tier == "quick" else {}, thorough_budget_s=900, chunk=40, idle_limit=45,   # a plan with 512 check files runs for several seconds
           
            signature=signature, param_min=[1, 0, 0],
            nontrivial=lambda r: r.get("ctr", {}).get("fork", 0) >= 1 and r.get("ctr", {}).get("context_switches", 0) >= 4,
            rule="one run = one seeded set of .check files (1..6 quick / 1..12 thorough, in 1..3 directories; commands exiting 0 / k / by a signal / failing to exec, with or without shall_fail, expected_output checks that match or not, "
                 "long command lines producing log blocks over 8 KiB, @Test comparisons that pass or fail), -j 1..6 / 1..16, with or without --discard-commands-failure and --synchronize-terminal-output, executed twice in fresh directories: "
                 "sequentially (-j 1, the scheduler always continues the current thread) and under one seeded schedule of worker threads, child processes and SIGCHLD deliveries; non-trivial = at least one fork and 4 context switches; distinct = distinct schedule hash",
            assumptions=["simulated kernel as for C30; every command is a planned fate (exit status / signal / exec failure / output text) looked up from the name of its redirected output file",
                         "oracles: exit status equal to that of the sequential run and (where no shall_fail / --discard-commands-failure blurs the documented semantics) to the plan-derived verdict; tfel-check.log, cut at the ====== delimiters, is the same multiset of blocks as the sequential log, with no text outside blocks",
                         "the unsynchronised terminal output is not judged"],
            components={"real": ["tfel-check/src/*.cxx (main, TFELCheck::execute, TestLauncher, PCLogger, PCTextDriver, comparisons)", "src/System/ThreadPool.cxx, ProcessManager.cxx, SignalManager.cxx, ...", "real .check files, log and output files in a scratch directory", "libTFELMFront, TFELMath*, TFELUtilities from the private build of the tree"],
                        "simulated": ["kernel: threads' schedule, fork/waitpid/pipes/SIGCHLD", "the commands"]},
            required_probes=["runs_parallel", "runs_j1", "blocks_over_8KiB", "mutex_contended", "handler_runs"],
        )
        return orch.run_sim_check(spec, args)
    finally:
        shutil.rmtree(wd, ignore_errors=True)


if __name__ == "__main__":
    sys.exit(main())
