#!/usr/bin/env python3
"""C09 (fault clauses) — scalar Newton-bisection root finder is sound and bracket-confined (DESIGN.md §3 C09)."""
import os, sys
sys.path.insert(0, os.path.join(os.path.dirname(os.path.abspath(__file__)), "..", "lib"))
from common import *
import enumcheck

PID = "C09"


def build():
    out = os.path.join(BUILD, PID)
    flags = ["-O1", "-g"] + SAN + REPO_INC + tfel_inc()
    objs = compile_objects(out, [(os.path.join(VERIF, "harness/C09/h09.cpp"), flags)])
    return link(os.path.join(out, "h09"), objs, SAN)


def main():
    args = parse_args(PID)
    spec = dict(
        pid=PID, level="fault_enumeration", binary=build(),
        shards={"quick": [["--tier", "0"]], "thorough": [["--tier", "1"]]},
        signature=lambda r: "%s bracket=%s fault=%s" % (r.get("function", "?"), r.get("bracket", "?"), r.get("fault", "?")) if r.get("case") else r.get("detail", "")[:100],
        exhaustive={"quick": True, "thorough": True}, nontrivial_key="fault_reached", fault_kinds_key="fault_kinds_reached",
        rule="complete enumeration of (6 functions with a known root: affine, cubic non-monotone, atan, exp-2, x^2-4 with a flat start, sign(x)sqrt|x| with an infinite derivative at the root) x "
             "(bracket: none / valid / valid reversed / same-sign / one-sided) x (initial guess inside, outside the bracket, at a flat point, next to the root or exactly at the root) x (criterion on |f| or on |dx|) x "
             "(iteration budget im) x (NaN regions of the domain) x every set of <= 2 (quick) / <= 3 (thorough) faulty evaluations among the first 3+2*im x fault kind (value NaN/-NaN/+inf/-inf, derivative 0/NaN/-NaN/+inf); "
             "non-trivial = a fault was actually returned to the algorithm; cases are distinct by construction",
        assumptions=["only the fault clauses of C09 are decided, on the recorded history of calls to the function and to the criterion",
                     "bracket confinement is demanded only when both ends of the supplied bracket were evaluated without fault and gave finite values of strictly opposite signs; the initial guess itself may lie outside",
                     "iteration budget: returned count <= im and at most 3 + 2*im function evaluations"],
        components={"real": ["include/TFEL/Math/NonLinearSolvers/ScalarNewtonRaphson.ixx", "include/TFEL/Math/NonLinearSolvers/BissectionAlgorithmBase.ixx"],
                    "stub": ["the scalar function and the stopping criterion (logging, with a fault plan)"]},
    )
    return enumcheck.run_enum_check(spec, args)


if __name__ == "__main__":
    sys.exit(main())
