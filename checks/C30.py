#!/usr/bin/env python3
"""C30 — Child-process exit status is reported faithfully under any schedule (DESIGN.md §3 C30)."""
import os, re, sys
sys.path.insert(0, os.path.join(os.path.dirname(os.path.abspath(__file__)), "..", "lib"))
from common import *
import orch

PID = "C30"
WRAP = "-Wl," + ",".join("--wrap=" + s for s in ["pipe", "fork", "write", "read", "close", "waitpid", "kill", "sigaction", "sigprocmask", "open", "open64", "pthread_sigmask"])
SYS = ["ProcessManager.cxx", "SignalManager.cxx", "SignalHandler.cxx", "System.cxx", "SystemError.cxx", "ProcessManager-c.c"]


def build():
    bins = {}
    units = []
    for variant in ("zero", "pattern"):
        flags = ["-O1", "-g", "-DNDEBUG", "-DTFEL_VERIF", "-DVSIM_PROC", "-ftrivial-auto-var-init=" + variant] + SAN + REPO_INC + tfel_inc()
        cflags = ["-O1", "-g", "-DNDEBUG", "-ftrivial-auto-var-init=" + variant] + SAN + REPO_INC + tfel_inc()
        us = [(os.path.join(VERIF, "harness/C30/h30.cpp"), flags), (os.path.join(VERIF, "sim/vsim.cpp"), flags)]
        us += [(os.path.join(REPO, "src/System", f), cflags if f.endswith(".c") else flags) for f in SYS]
        us += [(os.path.join(REPO, "src/Exception/TFELException.cxx"), flags)]
        units.append((variant, us))
    # one parallel compilation for both variants
    allu = [(s, f) for v, us in units for (s, f) in us]
    objs = compile_objects(os.path.join(BUILD, PID), allu)
    redirect_allocator([o for o, (src, fl) in zip(objs, allu) if src.startswith(REPO) and src.endswith(".cxx")])
    k = 0
    for v, us in units:
        o = objs[k:k + len(us)]; k += len(us)
        bins[v] = link(os.path.join(BUILD, PID, "h30_" + v), o, SAN + ["-rdynamic", WRAP, "-ldl", "-lpthread"])
    # long-lived process: 6600 managers (66000 handler ids) are created and destroyed before the runs
    bins["zero+history"] = (bins["zero"], ["--warm", "6600"])
    return bins


def signature(rec):
    cls, d = rec["cls"], rec.get("detail", "")
    if cls == "wrong-verdict":
        m = re.search(r"child (failed to exec|was killed by signal|exited with) ?(\d*) but execute\(\) reported ([a-z-]+)", d)
        if m:
            what = {"failed to exec": "exec-failure", "was killed by signal": "signal-death", "exited with": ("exit-0" if m.group(2) == "0" else "exit-nonzero")}[m.group(1)]
            return "%s reported as %s" % (what, m.group(3))
    if cls == "self-deadlock" and "allocator re-entered by signal handler" in d:
        m = re.search(r"operator new/delete from ((?:tfel::system::)?[\w:~]+)", d)
        return "allocator re-entered by signal handler in %s" % (m.group(1) if m else "?")
    if cls == "self-deadlock":
        m = re.search(r"locks mutex (\w+) which it already owns( \(from inside a signal handler)?", d)
        if m:
            return "%s re-entered%s" % (m.group(1), " by signal handler" if m.group(2) else "")
    if cls in ("memory-error", "crash"):
        m = re.search(r"SUMMARY: \w+: ([\w-]+) (\S+?)(:\d+)* in (.*)", d)
        if m:
            return "%s in %s (%s)" % (m.group(1), m.group(4).strip(), os.path.basename(m.group(2)))
        return re.sub(r"0x[0-9a-f]+", "0x?", d)[:160]
    if cls == "deadlock" and "never terminates" in d:
        m = re.search(r"blocks for ever on mutex (\w+).*?the child was in: ([\w:~]+)", d)
        return "child of a failed exec never terminates (blocked on %s in %s)" % (m.group(1), m.group(2)) if m else "child of a failed exec never terminates"
    if cls == "deadlock":
        return "deadlock: " + re.sub(r"T\d+:", "", d).strip()[:100]
    return cls


def main():
    args = parse_args(PID)
    spec = dict(
        pid=PID, level="exploration", binaries=build(), runs={"quick": 9000, "thorough": 200000}, thorough_budget_s=900,
        signature=signature, param_min=[1, 0, 0], variant_runs={"zero+history": 320},
        nontrivial=lambda r: r.get("ctr", {}).get("fork", 0) >= 1 and r.get("ctr", {}).get("context_switches", 0) >= 1 or r.get("ctr", {}).get("handler_runs", 0) >= 1,
        rule="one run = one seeded set of caller threads, each executing planned commands (child fate: exit 0 / exit k / killed by signal / exec failure, planned run length) "
             "through its own ProcessManager, under one seeded schedule of threads, child exec/exit instants and SIGCHLD targets; non-trivial = at least one fork and one handler run or context switch; "
             "distinct = distinct hash of the scheduler's choice sequence; both -ftrivial-auto-var-init flavours are run",
        assumptions=["the simulated kernel follows Linux/POSIX for fork, waitpid (children re-scanned before EINTR), pipes, SIGCHLD generation/coalescing/delivery, sigprocmask and sa_mask",
                     "POSIX lets any thread that does not block SIGCHLD receive it; half of the runs restrict this to Linux's preference for the forking thread",
                     "the child side of createProcess is a state machine (waits for OK, exec succeeds or fails, runs, ends with the planned fate); descriptor inheritance by children of other threads is not modelled",
                     "uninitialised automatic variables read by the code take the value 0 (variant zero) or 0xFE.. (variant pattern)",
                     "in a third of the runs pids come from a small space: the pid of a reaped child is handed out again once the command that started it is over (never inside the window between a waitpid and its caller's bookkeeping: that would need the whole pid space to wrap around within microseconds)",
                     "system calls that change the process table (a successful waitpid, close) are preemption points after as well as before the call"],
        components={"real": ["src/System/ProcessManager.cxx (parent side)", "src/System/SignalManager.cxx", "src/System/SignalHandler.cxx", "src/System/System.cxx", "src/System/SystemError.cxx", "src/System/ProcessManager-c.c", "src/Exception/TFELException.cxx"],
                    "simulated": ["kernel: fork/waitpid/kill/pipe/read/write/close/sigaction/sigprocmask", "child processes", "pthread mutex/create/join", "scheduler"]},
        required_probes=["runs_multi_thread", "runs_single_thread", "reaped_by_wnohang", "reaped_by_blocking_wait", "ECHILD_blocking", "EINTR_waitpid", "sigchld_to_other_thread",
                         "sigchld_coalesced", "sigchld_delivered_at_unblock", "stray_sigchld_fired", "handler_runs", "pid_recycled", "child_stopped", "child_continued", "real_exec_failure_children_terminated"],
    )
    return orch.run_sim_check(spec, args)


if __name__ == "__main__":
    sys.exit(main())
