#!/usr/bin/env python3
"""C08 (fault clauses) — fixed-size nonlinear solvers never claim false convergence (DESIGN.md §3 C08)."""
import os, sys
sys.path.insert(0, os.path.join(os.path.dirname(os.path.abspath(__file__)), "..", "lib"))
from common import *
import enumcheck

PID = "C08"
NSOLVERS = 8   # the six solvers, and the Newton-Raphson solver with the two other kinds of workspace


def build():
    out = os.path.join(BUILD, PID)
    os.makedirs(out, exist_ok=True)
    flags = ["-O1", "-g"] + SAN + REPO_INC + tfel_inc()
    units = []
    for k in range(NSOLVERS):
        ln = os.path.join(out, "h08_solver%d.cpp" % k)
        if os.path.lexists(ln):
            os.remove(ln)
        os.symlink(os.path.join(VERIF, "harness/C08/h08.cpp"), ln)
        units.append((ln, flags + ["-DSOLVER_INDEX=%d" % k]))
    common = [os.path.join(REPO, f) for f in ("src/Exception/ContractViolation.cxx", "src/Math/LUException.cxx", "src/Exception/TFELException.cxx", "src/Math/MathException.cxx")]
    units += [(c, flags) for c in common]
    objs = compile_objects(out, units)
    return [link(os.path.join(out, "h08_%d" % k), [objs[k]] + objs[NSOLVERS:], SAN) for k in range(NSOLVERS)]


def main():
    args = parse_args(PID)
    bins = build()
    spec = dict(
        pid=PID, level="fault_enumeration", binary=None, binary_for_case=lambda c: bins[int(c[0])],
        shards={"quick": [[b, "--tier", "0"] for b in bins], "thorough": [[b, "--tier", "1"] for b in bins]},
        signature=lambda r: "%s %s" % (r.get("solver", "?"), r.get("fault", "?")) if r.get("case") else r.get("detail", "")[:100],
        exhaustive={"quick": True, "thorough": True}, nontrivial_key="fault_reached", fault_kinds_key="fault_kinds_reached",
        rule="complete enumeration, per solver (Newton-Raphson, Broyden, Broyden2, Powell dog-leg Newton/Broyden, Levenberg-Marquardt; Newton-Raphson also with an external workspace made of views and with a heap workspace, these two for N = 5 and 7 too), size N in {1,2,3,4,6,8}, "
             "system family (affine, mildly nonlinear with known root, singular jacobian at the start; plus the affine family scaled by 1e-6, 1e-9 and 1e-12 together with its convergence threshold, with at most one fault; the equations of an affine system in 48 orders that need row exchanges; Rosenbrock's valley for every budget 1..60; a system whose last equation converges ten iterations after the others, budgets 1..20) and iterMax, of every set of <= 3 faulty residual evaluations among the first iterMax+2 "
             "x fault kind (returns false, NaN / +inf / -inf in the residual, NaN in the jacobian); non-trivial = at least one injected fault was actually reached; cases are distinct by construction",
        assumptions=["only the fault clauses of C08 are decided: no success on a failed / non-finite evaluation, success implies the last residual was evaluated at the returned unknowns and meets the criterion, iter <= iterMax, evaluations <= 2*iterMax+2",
                     "'Newton converges inside its basin' is covered only as bounded liveness: Newton-Raphson on an affine well-conditioned system (at four magnitudes: the method is invariant under a scaling of the residual) converges once rejected evaluations stop and enough iterations are left",
                     "a NaN written in the jacobian does not invalidate the residual of that evaluation (a solver may legitimately converge on it)"],
        components={"real": ["include/TFEL/Math/NonLinearSolvers/TinyNonLinearSolverBase.ixx", "TinyNewtonRaphsonSolver.ixx", "TinyBroydenSolver.ixx", "TinyBroyden2Solver.ixx", "TinyPowellDogLeg*Solver.ixx", "TinyPowellDogLegAlgorithmBase.hxx", "TinyLevenbergMarquardtSolver.ixx", "TinyMatrixSolve"],
                    "stub": ["the residual callback (CRTP child with a fault plan and an evaluation log)"]},
    )
    return enumcheck.run_enum_check(spec, args)


if __name__ == "__main__":
    sys.exit(main())
