#!/usr/bin/env python3
"""C47 — the build-target registry survives histories and crashes (DESIGN.md §3 C47).

Real mfront binary (private build of the current tree) under the LD_PRELOAD I/O layer: the I/O events of a run are numbered;
for the crashing run of a history every event index x {kill before, kill after, torn write} is enumerated (plus ENOSPC/EIO
in the thorough tier); fault-free histories are compared with a set-union reference model."""
import concurrent.futures, json, os, re, shutil, subprocess, sys, time
sys.path.insert(0, os.path.join(os.path.dirname(os.path.abspath(__file__)), "..", "lib"))
from common import *
from C46 import SM64   # same seeded generator

PID = "C47"
MF = os.path.join(TFEL_BUILD, "mfront/src/mfront")
VPRE = os.path.join(BUILD, "preload", "libvpre.so")


def build_preload():
    os.makedirs(os.path.dirname(VPRE), exist_ok=True)
    r = run(["gcc", "-shared", "-fPIC", "-O1", "-g", "-o", VPRE, os.path.join(VERIF, "preload/vpre.c"), "-ldl"])
    if r.returncode != 0:
        log(r.stderr); raise SystemExit(2)


def build_roundtrip():
    """in-memory tier: writers, readers and merge functions of the freshly built libTFELMFront driven directly (harness/C47/h47rt.cpp)"""
    inc = REPO_INC + ["-I" + os.path.join(REPO, "mfront/include")] + tfel_inc()
    L = []
    for d, l in (("mfront/src", "TFELMFront"), ("mfront/src", "MFrontLogStream"), ("src/Utilities", "TFELUtilities"), ("src/Exception", "TFELException")):
        p = os.path.join(TFEL_BUILD, d); L += ["-L" + p, "-Wl,-rpath," + p, "-l" + l]
    for d in ("src/System", "src/Math", "src/Material", "src/Glossary", "src/UnicodeSupport", "src/Config", "src/NUMODIS", "src/Tests"):
        p = os.path.join(TFEL_BUILD, d)
        if os.path.isdir(p):
            L += ["-Wl,-rpath," + p, "-Wl,-rpath-link," + p]
    out = os.path.join(BUILD, PID)
    os.makedirs(out, exist_ok=True)
    exe = os.path.join(out, "h47rt")
    r = run([CXX, "-std=c++20", "-O1", "-g"] + inc + [os.path.join(VERIF, "harness/C47/h47rt.cpp"), "-o", exe] + L)
    if r.returncode != 0:
        log("BUILD FAILED (harness/C47/h47rt.cpp):\n" + r.stderr[-3000:]); raise SystemExit(2)
    return exe


def run_roundtrip(exe, seed, count, viol, stats):
    p = subprocess.run([exe, "--seed", str(seed), "--count", str(count)], stdout=subprocess.PIPE, stderr=subprocess.PIPE, text=True, errors="replace", env=tfel_env())
    summary = None
    for l in p.stdout.splitlines():
        if not l.startswith("{"):
            continue
        r = json.loads(l)
        if r.get("summary"):
            summary = r
        else:
            viol.append((r["cls"], "in-memory description #%d (seed %d): %s; registry text: %s" % (r["case"], r["seed"], r["detail"], r.get("registry", "")[:300]), {"roundtrip": {"seed": seed, "case": r["case"]}}))
    if summary is None:
        viol.append(("roundtrip-harness-crashed", "exit status %d: %s" % (p.returncode, p.stderr[-300:]), {"roundtrip": {"seed": seed}}))
    else:
        stats["roundtrip_descriptions"] = summary["cases"]; stats["roundtrip_nontrivial"] = summary["nontrivial"]; stats["roundtrip_merges"] = summary["merges"]


def corpus():
    t = os.path.join(REPO, "mfront/tests")
    c = []
    props = ["YoungModulusTest", "PoissonRatioTest", "ErrnoHandlingCheck", "YoungModulusBoundsCheck", "VanadiumAlloy_PoissonRatio_SRMA", "T91MartensiticSteel_ThermalExpansion_ROUX2007", "Inconel600_YoungModulus"]
    for k, p in enumerate(props):
        f = os.path.join(t, "properties", p + ".mfront")
        if os.path.exists(f):
            c += [(f, "c"), (f, "cxx")]
            if k < 4:
                c.append((f, "octave"))    # registers specific targets ("target : {...}" entries and dependencies of the target "all")
            if k in (1, 4):
                c.append((f, "excel"))
    for b in ["Norton", "Elasticity", "Plasticity", "Chaboche", "Mazars"]:
        f = os.path.join(t, "behaviours", b + ".mfront")
        if os.path.exists(f):
            c.append((f, "generic"))
    # runs without any interface: only the headers of the behaviour are generated and registered (no library, no target)
    for b in ["Norton", "Plasticity"]:
        f = os.path.join(t, "behaviours", b + ".mfront")
        if os.path.exists(f):
            c.append((f, ""))
    # runs given two inputs of which the second one is rejected by mfront: the run ends with an error status, but what it generated for the
    # first input is on disk and must be registered like the description of that input treated alone ("+fail" marks those runs)
    for p in props[:2]:
        f = os.path.join(t, "properties", p + ".mfront")
        if os.path.exists(f):
            c.append((f, "c", "+fail"))
    # runs that define preprocessor macros (-D): the flag belongs to the libraries this run describes, and to no other library of the registry
    for p, i in ((props[1], "cxx"), (props[2], "c")):
        f = os.path.join(t, "properties", p + ".mfront")
        if os.path.exists(f):
            c.append((f, i, "-D", "VSIM_C47_MACRO_%s=2" % i.upper()))
    # a behaviour using @MaterialLaw: its library depends on a second library (MFrontMaterialLaw) registered by the same run
    f = os.path.join(t, "behaviours", "T91ViscoplasticBehaviour.mfront")
    if os.path.exists(f):
        c.append((f, "generic", "--search-path=" + os.path.join(t, "properties")))
    for m in ["B4C_ConcentrationModel", "UO2_Shrinkage_RAPHAEL2008"]:
        f = os.path.join(t, "models", m + ".mfront")
        if os.path.exists(f):
            c.append((f, "generic"))
    if len(c) < 6:   # the corpus moved: fall back on whatever properties exist
        for f in sorted(os.listdir(os.path.join(t, "properties")))[:8]:
            if f.endswith(".mfront"):
                c.append((os.path.join(t, "properties", f), "c"))
    return c


def mfront(wd, inp, extra_env=None):
    env = tfel_env()
    env["LD_PRELOAD"] = VPRE
    env["VPRE_SEM_PRIVATE"] = "1"   # killed runs must not leave the user's real /dev/shm semaphore locked
    if extra_env:
        env.update(extra_env)
    extra = [a for a in inp[2:] if a != "+fail"]
    files = [inp[0]] + ([os.path.join(VERIF, "behaviours", "InvalidLaw.mfront")] if "+fail" in inp[2:] else [])
    p = subprocess.run([MF] + (["--interface=" + inp[1]] if inp[1] else []) + extra + files, cwd=wd, env=env, stdout=subprocess.PIPE, stderr=subprocess.STDOUT, text=True)
    return p.returncode, p.stdout


# ------------------------------------------------------------------ registry reader (small tokenizer for the documented format)
def parse_registry(text):
    """returns {'libraries': {name: {field: frozenset|str}}, 'headers': set, 'targets': {...}} ; raises ValueError when malformed"""
    toks = re.findall(r'"(?:[^"\\]|\\.)*"|[{}:;,]|[A-Za-z_][A-Za-z_0-9]*', text)
    if re.sub(r'"(?:[^"\\]|\\.)*"|[{}:;,]|[A-Za-z_][A-Za-z_0-9]*|\s+', "", text):
        raise ValueError("unexpected characters")
    pos = [0]

    def peek():
        return toks[pos[0]] if pos[0] < len(toks) else None

    def eat(t=None):
        x = peek()
        if x is None or (t is not None and x != t):
            raise ValueError("expected %r, got %r" % (t, x))
        pos[0] += 1
        return x

    def strlist():
        out = []
        eat("{")
        while peek() != "}":
            s = eat()
            if not s.startswith('"'):
                raise ValueError("string expected")
            out.append(s[1:-1])
            if peek() == ",":
                eat(",")
        eat("}")
        return out

    def block():
        d = {}
        eat("{")
        while peek() != "}":
            k = eat(); eat(":")
            if peek() == "{":
                d[k] = frozenset(strlist())
            else:
                d[k] = eat().strip('"')
            eat(";")
        eat("}")
        return d

    reg = {"libraries": {}, "headers": set(), "targets": {}}
    eat("{")
    while peek() != "}":
        k = eat(); eat(":")
        if k == "library":
            b = block(); reg["libraries"][b.get("name", "?")] = b
        elif k == "headers":
            reg["headers"] |= set(strlist())
        elif k == "target":
            b = block(); reg["targets"][b.get("name", "?")] = b
        else:
            raise ValueError("unknown entry " + k)
        eat(";")
    eat("}")
    if peek() == ";":
        eat(";")
    if peek() is not None:
        raise ValueError("trailing tokens")
    return reg


def read_registry(wd):
    p = os.path.join(wd, "src", "targets.lst")
    if not os.path.exists(p):
        return None, "absent"
    txt = open(p, errors="replace").read()
    if not txt.strip():
        return None, "empty"
    try:
        return parse_registry(txt), "complete"
    except (ValueError, IndexError):
        return None, "truncated"


def union(a, b):
    out = {"libraries": {}, "headers": set(a["headers"]) | set(b["headers"]), "targets": dict(a["targets"])}
    for n in sorted(set(a["libraries"]) | set(b["libraries"])):
        la, lb = a["libraries"].get(n, {}), b["libraries"].get(n, {})
        m = {}
        for f in sorted(set(la) | set(lb)):
            va, vb = la.get(f), lb.get(f)
            if isinstance(va, frozenset) or isinstance(vb, frozenset):
                m[f] = frozenset(va or ()) | frozenset(vb or ())
            else:
                m[f] = va if va is not None else vb
        out["libraries"][n] = m
    for n in sorted(set(a["targets"]) | set(b["targets"])):
        ta, tb = a["targets"].get(n, {}), b["targets"].get(n, {})
        m = {}
        for f in sorted(set(ta) | set(tb)):
            va, vb = ta.get(f), tb.get(f)
            if isinstance(va, frozenset) or isinstance(vb, frozenset):
                m[f] = frozenset(va or ()) | frozenset(vb or ())
            else:
                m[f] = va if va is not None else vb
        out["targets"][n] = m
    return out


def includes(big, small):
    """big records at least everything small does (libraries, their sources and entry points, headers)"""
    miss = []
    for n, l in small["libraries"].items():
        if n not in big["libraries"]:
            miss.append("library %s" % n); continue
        for f, v in l.items():
            if isinstance(v, frozenset) and not v <= frozenset(big["libraries"][n].get(f, ())):
                miss.append("%s.%s: %s" % (n, f, sorted(v - frozenset(big["libraries"][n].get(f, ())))))
    if not set(small["headers"]) <= set(big["headers"]):
        miss.append("headers %s" % sorted(set(small["headers"]) - set(big["headers"])))
    for n, t in small["targets"].items():   # specific targets (e.g. the .oct files of the octave interface and the dependencies of "all")
        if n not in big["targets"]:
            miss.append("target %s" % n); continue
        for f, v in t.items():
            if isinstance(v, frozenset) and not v <= frozenset(big["targets"][n].get(f, ())):
                miss.append("target %s.%s: %s" % (n, f, sorted(v - frozenset(big["targets"][n].get(f, ())))))
    return miss


def reg_equal(a, b):
    return not includes(a, b) and not includes(b, a)


# ------------------------------------------------------------------ histories
def gen_history(seed, tier, cps):
    r = SM64(seed)
    n = r.range(2, 4 if tier == 0 else 6)
    if seed % 5 == 0:
        n = r.range(12, 16)       # long history: the registry grows beyond one page, so that torn writes exist
    runs = [r.range(0, len(cps) - 1) for _ in range(n)]
    if n >= 12:
        runs = [(k * 3 + seed) % len(cps) for k in range(n)]
    if r.chance(1, 2) and n >= 2:
        runs[r.range(1, n - 1)] = runs[0]          # repetition of an input already registered
    if r.chance(1, 3) and n >= 2:
        # two different inputs for the same interface: they contribute to the same library and, for octave, to the same target "all"
        same = [j for j in range(len(cps)) if cps[j][1] == cps[runs[0]][1] and j != runs[0]]
        if same:
            runs[n - 1 if n < 12 else 1] = same[r.range(0, len(same) - 1)]
    if r.chance(1, 4) and n >= 2:
        octs = [j for j in range(len(cps)) if cps[j][1] == "octave"]
        if len(octs) >= 2:
            a = r.range(0, len(octs) - 1); b = (a + r.range(1, len(octs) - 1)) % len(octs)
            runs[0], runs[1] = octs[a], octs[b]
    crash_at = r.range(1, n - 1) if n < 12 else n - 1   # index of the crashing run (at least one completed run before it)
    follow = [r.range(0, len(cps) - 1) for _ in range(r.range(1, 2))]
    if r.chance(1, 2):
        follow[0] = runs[crash_at]                  # the natural reaction: re-run the interrupted command
    return {"runs": runs, "crash_at": crash_at, "follow": follow}


class Ctx:
    def __init__(self, cps, workroot):
        self.cps, self.root = cps, workroot
        self.standalone = {}
        self.n = 0
        import threading
        self.lock = threading.Lock()

    def newdir(self, tag):
        with self.lock:
            self.n += 1
            k = self.n
        d = os.path.join(self.root, "%s.%d" % (tag, k))
        os.makedirs(d)
        return d

    def alone(self, i):
        if i not in self.standalone:
            d = self.newdir("alone")
            rc, out = mfront(d, self.cps[i])
            reg, st = read_registry(d)
            if "+fail" in self.cps[i][2:]:   # the model of a partially failing run is the description of its valid input treated alone
                base = (self.cps[i][0], self.cps[i][1]) + tuple(a for a in self.cps[i][2:] if a != "+fail")
                if rc == 0:
                    shutil.rmtree(d, ignore_errors=True)
                    raise RuntimeError("run of %s with an invalid second input exits with status 0" % (self.cps[i],))
                d2 = self.newdir("alone")
                rc2, out2 = mfront(d2, base)
                reg2, st2 = read_registry(d2)
                shutil.rmtree(d2, ignore_errors=True)
                if rc2 == 0 and reg2 is not None and (reg is None or includes(reg, reg2)):
                    shutil.rmtree(d, ignore_errors=True)
                    raise RuntimeError("run of %s followed by an invalid input (exit status %d): the files generated for the valid input are on disk but the registry (%s) does not record: %s" % (
                        self.cps[i][:2], rc, st, includes(reg, reg2) if reg else "anything"))
                rc, reg = rc2, reg2
            if rc != 0 or reg is None:
                shutil.rmtree(d, ignore_errors=True)
                raise RuntimeError("run of %s alone in a fresh directory: exit status %d, registry %s; output: %s" % (self.cps[i], rc, st, out[-300:]))
            self.standalone[i] = reg
            shutil.rmtree(d, ignore_errors=True)
        return self.standalone[i]


def check_fault_free(ctx, h, viol, stats):
    d = ctx.newdir("ff")
    model = {"libraries": {}, "headers": set(), "targets": {}}
    seen = set()
    for k, i in enumerate(h["runs"]):
        before = open(os.path.join(d, "src", "targets.lst"), "rb").read() if os.path.exists(os.path.join(d, "src", "targets.lst")) else None
        rc, out = mfront(d, ctx.cps[i])
        stats["mfront_runs"] += 1
        if rc != 0 and "+fail" not in ctx.cps[i][2:]:
            viol.append(("fault-free-run-failed", "run %d (%s) failed in a history: %s" % (k, ctx.cps[i], out[-200:]), {"history": h, "step": k}))
            break
        model = union(model, ctx.alone(i))
        reg, st = read_registry(d)
        if reg is None or not reg_equal(reg, model):
            viol.append(("registry-is-not-the-union", "after run %d of %s the registry (%s) differs from the union model: missing %s / extra %s" % (
                k, [os.path.basename(ctx.cps[j][0]) + ":" + ctx.cps[j][1] for j in h["runs"][:k + 1]], st, includes(reg, model) if reg else "?", includes(model, reg) if reg else "?"), {"history": h, "step": k}))
            break
        if i in seen:
            stats["idempotence_checked"] += 1
            after = open(os.path.join(d, "src", "targets.lst"), "rb").read()
            if after != before:
                viol.append(("rewrite-not-idempotent", "re-running %s changed the bytes of src/targets.lst" % (ctx.cps[i],), {"history": h, "step": k}))
                break
        seen.add(i)
    shutil.rmtree(d, ignore_errors=True)


def crash_variant(ctx, h, base, L, k, mode, stats_local):
    """one crash point: copy of the directory after the completed prefix, crashing run with the plan, then the follow-up runs"""
    d = ctx.newdir("cv")
    shutil.rmtree(d)
    shutil.copytree(base, d)
    i = h["runs"][h["crash_at"]]
    rc, out = mfront(d, ctx.cps[i], {"VPRE_IO_LOG": "/dev/null", "VPRE_IO_PLAN": "%d:%s" % (k, mode)})
    res = {"k": k, "mode": mode, "crash_rc": rc, "state": read_registry(d)[1], "viol": None}
    killed = rc == -9
    if mode.startswith("k") and not killed:
        res["note"] = "fault not reached"
    cur = L
    # the runs made after the crash use, for every other crash point, options that change what mfront prints but not what it must do
    # (warnings switched off): a damaged registry is an error, to be reported whatever the settings of the warnings
    quiet = ("--report-warnings=false",) if k % 2 == 1 else ()
    for fi, j in enumerate(h["follow"]):
        rc2, out2 = mfront(d, tuple(ctx.cps[j]) + quiet)
        if rc2 < 0:
            res["viol"] = ("follow-up-run-crashed", "run after the crash died with signal %d: %s" % (-rc2, out2[-200:]))
            break
        if rc2 != 0 or "can't read file" in out2:
            res["reported"] = True
            break   # the damaged registry was reported as an error: nothing more is demanded
        reg, st = read_registry(d)
        miss = includes(reg, cur) if reg else ["whole registry (%s)" % st]
        if miss:
            res["viol"] = ("registered-libraries-lost-after-crash", "crash %s at I/O event %d of run %s left src/targets.lst %s; the next run (%s%s) exited 0 without reporting it and the registry no longer records: %s" % (
                {"kb": "before", "ka": "after", "kt": "in the middle of (torn write)", "en": "ENOSPC at", "ei": "EIO at"}[mode], k, ctx.cps[i], res["state"], ctx.cps[j], " with " + quiet[0] if quiet else "", miss))
            break
        cur = reg
    shutil.rmtree(d, ignore_errors=True)
    return res


def check_crashes(ctx, h, viol, stats, tier, pool):
    base = ctx.newdir("base")
    for i in h["runs"][:h["crash_at"]]:
        rc, out = mfront(base, ctx.cps[i])
        if rc != 0:
            shutil.rmtree(base, ignore_errors=True); return
    L, st = read_registry(base)
    if L is None:
        shutil.rmtree(base, ignore_errors=True); return
    # number the I/O events of the crashing run (fault-free, in a copy)
    probe = ctx.newdir("probe"); shutil.rmtree(probe); shutil.copytree(base, probe)
    logf = os.path.join(probe, "io.log")
    rc, out = mfront(probe, ctx.cps[h["runs"][h["crash_at"]]], {"VPRE_IO_LOG": logf})
    events = [l.split() for l in open(logf).read().splitlines()] if os.path.exists(logf) else []
    shutil.rmtree(probe, ignore_errors=True)
    modes = ["kb", "ka", "kt"] + (["en", "ei"] if tier else [])
    jobs = []
    for e in events:
        k = int(e[0])
        for m in modes:
            if m == "kt" and not (e[1] == "write" and int(e[3]) > 4096):
                continue
            if m in ("en", "ei") and e[1] not in ("write", "close"):
                continue
            jobs.append((k, m))
    res = list(pool.map(lambda km: crash_variant(ctx, h, base, L, km[0], km[1], None), jobs))
    for r in res:
        stats["crash_points"] += 1
        stats["mode_" + r["mode"]] = stats.get("mode_" + r["mode"], 0) + 1
        stats["state_" + r["state"]] = stats.get("state_" + r["state"], 0) + 1
        if r.get("reported"):
            stats["damage_reported_by_next_run"] += 1
        if r["viol"]:
            viol.append((r["viol"][0], r["viol"][1], {"history": h, "k": r["k"], "mode": r["mode"]}))
    for e in events:
        cls = "registry" if "targets.lst" in e[2] else ("header" if e[2].startswith("include") else "source" if e[2].startswith("src") else "other")
        if e[1] == "open":
            stats["events_on_" + cls] = stats.get("events_on_" + cls, 0) + 1
    stats["io_events_numbered"] += len(events)
    shutil.rmtree(base, ignore_errors=True)
    return len(jobs)


def replay(args, ctx):
    rep = json.load(open(args.replay))
    viol, stats = [], {"mfront_runs": 0, "idempotence_checked": 0, "crash_points": 0, "damage_reported_by_next_run": 0, "io_events_numbered": 0}
    h = rep["history"]
    if "single" in rep:
        try:
            ctx.alone(rep["single"])
        except RuntimeError as e:
            viol.append(("single-run-leaves-no-valid-registry", str(e), {}))
    elif "k" in rep:
        base = ctx.newdir("base")
        for i in h["runs"][:h["crash_at"]]:
            mfront(base, ctx.cps[i])
        L, _ = read_registry(base)
        r = crash_variant(ctx, h, base, L, rep["k"], rep["mode"], None)
        if r["viol"]:
            viol.append((r["viol"][0], r["viol"][1], {}))
    else:
        check_fault_free(ctx, h, viol, stats)
    for v in viol:
        log("replay: %s: %s" % (v[0], v[1]))
    if viol:
        log("VIOLATION property=%s replay=%s" % (PID, os.path.abspath(args.replay)))
        return 1
    log("replay: ok")
    return 0


def main():
    args = parse_args(PID)
    t0 = time.time()
    ensure_tfel(("mfront",))
    build_preload()
    rt = build_roundtrip()
    cps = corpus()
    root = fresh_workdir(PID)
    ctx = Ctx(cps, root)
    try:
        if args.replay:
            rep0 = json.load(open(args.replay))
            if "roundtrip" in rep0:   # in-memory tier: the description is regenerated from (seed, case)
                v2, st2 = [], {}
                run_roundtrip(rt, rep0["roundtrip"]["seed"], rep0["roundtrip"].get("case", 0) + 1, v2, st2)
                v2 = [v for v in v2 if v[2].get("roundtrip", {}).get("case") == rep0["roundtrip"].get("case")]
                for v in v2:
                    log("replay: %s: %s" % (v[0], v[1]))
                if v2:
                    log("VIOLATION property=%s replay=%s" % (PID, os.path.abspath(args.replay)))
                    return 1
                log("replay: ok")
                return 0
            return replay(args, ctx)
        tier = 0 if args.tier == "quick" else 1
        nhist = args.runs or (10 if tier == 0 else 120)
        budget = args.budget or (900 if tier else 0)
        viol = []
        stats = {"mfront_runs": 0, "idempotence_checked": 0, "crash_points": 0, "damage_reported_by_next_run": 0, "io_events_numbered": 0}
        run_roundtrip(rt, args.seed, 4000 if tier == 0 else 100000, viol, stats)
        samples = []
        with concurrent.futures.ThreadPoolExecutor(max_workers=NPROC) as pool:
            unusable = []
            for i in range(len(cps)):
                try:
                    ctx.alone(i)
                except RuntimeError as e:
                    # a successful run must leave a registry recording what it generated (one-run history)
                    viol.append(("single-run-leaves-no-valid-registry", str(e), {"history": {"runs": [i], "crash_at": 0, "follow": []}, "single": i}))
                    unusable.append(i)
            if unusable:   # the histories below cannot be judged with inputs that have no description of their own
                log("WARNING: %d corpus input(s) left out of the histories: %s" % (len(unusable), [cps[i][:2] for i in unusable]))
                cps = [c for i, c in enumerate(cps) if i not in unusable]
                ctx = Ctx(cps, root)
                for i in range(len(cps)):
                    ctx.alone(i)
            hidx = 0
            while hidx < nhist and not (budget and time.time() - t0 > budget):
                h = gen_history(args.seed * 100000 + hidx, tier, cps)
                check_fault_free(ctx, h, viol, stats)
                nj = check_crashes(ctx, h, viol, stats, tier, pool)
                if len(samples) < 4:
                    samples.append({"history": [os.path.basename(cps[j][0]) + ":" + cps[j][1] for j in h["runs"]], "crashing_run": h["crash_at"], "follow_up": [os.path.basename(cps[j][0]) + ":" + cps[j][1] for j in h["follow"]], "crash_variants": nj})
                hidx += 1
                if len(viol) > 30:
                    break
        known = load_known(PID)
        groups = {}
        for cls, detail, rep in viol:
            sig = cls + (":" + rep.get("mode", "") + ":" + re.sub(r".*left src/targets.lst (\w+);.*", r"\1", detail) if "mode" in rep else "")
            groups.setdefault((cls, sig), []).append((detail, rep))
        rd = replay_dir(PID)
        exit_code, reported = 0, []
        for (cls, sig) in sorted(groups):
            detail, rep = groups[(cls, sig)][0]
            path = os.path.join(rd, "%s_%s.json" % (cls, sha(sig)[:8]))
            rep = dict(rep, property=PID, **{"class": cls}, detail=detail, corpus=[list(c) for c in cps])
            json.dump(rep, open(path, "w"), indent=1)
            kf = match_known(known, cls, sig)
            entry = {"class": cls, "signature": sig, "count": len(groups[(cls, sig)]), "replay": path, "detail": detail}
            if kf:
                entry["known_finding"] = kf.get("id", "")
                log("KNOWN-FINDING: property=%s %s [%d cases; replay=%s]" % (PID, kf.get("what", sig), entry["count"], path))
            else:
                exit_code = 1
                log("VIOLATION property=%s replay=%s" % (PID, path))
                log("  class=%s signature=%s cases=%d" % (cls, sig, entry["count"]))
                log("  " + detail)
            reported.append(entry)
        wall = time.time() - t0
        coverage = {
            "evaluations": stats["crash_points"] + hidx,
            "distinct_nontrivial": stats["crash_points"],
            "rule": "one history = 2..4 (quick) / 2..6 (thorough) mfront runs over a corpus of %d (input, interface) pairs, with repetitions; checked fault-free against the set-union model and for write/read idempotence; "
                    "then, for its crashing run, EVERY numbered I/O event x {kill before, kill after, torn write for writes > 4096 bytes%s} is executed from a copy of the directory left by the completed prefix, followed by 1..2 fault-free runs; "
                    "non-trivial = one crash point (history, event, mode); all distinct by construction" % (len(cps), ", ENOSPC, EIO" if tier else ""),
            "samples": samples,
            "exhaustive": False,
            "exhaustive_note": "every I/O event of the crashing run of each sampled history is enumerated; the histories themselves are sampled",
            "histories": hidx,
            "counters": dict(sorted(stats.items())),
            "fault_kinds_injected": {k[5:]: v for k, v in sorted(stats.items()) if k.startswith("mode_")},
            "registry_states_seen_by_the_following_run": {k[6:]: v for k, v in sorted(stats.items()) if k.startswith("state_")},
            "crash_points_per_hour": int(stats["crash_points"] / max(wall, 1e-3) * 3600),
            "components": {"real": ["the mfront binary built from the tree (MFront::exe, analyseTargetsFile, mergeTargetsDescription, writeTargetsDescription, TargetsDescription / LibraryDescription readers and writers)", "the file system (scratch directory)"],
                           "stub": ["nothing; the LD_PRELOAD layer only numbers I/O events and injects the kill / error"]},
            "findings": reported,
        }
        coverage["in_memory_tier"] = {"descriptions_written_read_and_rewritten": stats.get("roundtrip_descriptions", 0), "non_trivial": stats.get("roundtrip_nontrivial", 0), "merges_checked": stats.get("roundtrip_merges", 0),
                                      "what": "seeded TargetsDescription objects with every member populated (strings as real runs register them: quoted commands, make variables, paths with spaces) go through the real operator<<, CxxTokenizer, read<TargetsDescription> and mergeTargetsDescription of the freshly built libTFELMFront"}
        assumptions = ["kill model: a killed process loses nothing for which write() returned (no power loss)", "the small registry parser of the driver accepts exactly the format written by TargetsDescription's operator<<",
                       "'reports the damaged registry' = non-zero exit status or the \"can't read file\" message on its output"]
        if not args.no_evidence:
            write_evidence(PID, args.tier, args.seed, "fault_enumeration", coverage, assumptions, wall, sum(1 for e in reported if "known_finding" not in e))
        log("%s %s: %d histories, %d crash points (%s), %d mfront runs in fault-free histories, %d violations in %d classes, %.1fs" % (
            PID, args.tier, hidx, stats["crash_points"], coverage["registry_states_seen_by_the_following_run"], stats["mfront_runs"], len(viol), len(groups), wall))
        return exit_code
    finally:
        shutil.rmtree(root, ignore_errors=True)


if __name__ == "__main__":
    sys.exit(main())
