/* fault-plan provider for the /verif-owned test behaviours (symbol defined by preload/vpre.c) */
#pragma once
#ifdef __cplusplus
extern "C" {
#endif
int vsim_fault(int stage);
#ifdef __cplusplus
}
#endif
