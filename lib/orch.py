"""Orchestrator for the in-process simulation harnesses (sim/hutil.h protocol): worker pool with restart,
aggregation of reach counters, determinism resampling, minimisation (ddmin over ops / faults / decisions),
violation gates (same-seed hash match + fresh-process replay), known findings, evidence."""
import concurrent.futures, json, os, subprocess, sys, time
from common import *

MAX_VIOLATIONS = 40
ABORT = [0]   # violations seen so far by all workers of this process
RUN_TIMEOUT = 10   # seconds without any output after which a harness process is declared hung (watchdog for busy loops)
CHUNK = 300   # runs per harness process (processes are recycled so that in-process history stays short)


def bin_cmd(b):
    """a 'binary' is a path or a (path, extra_args) pair"""
    return [b] if isinstance(b, str) else [b[0]] + list(b[1])

CPUS = sorted(os.sched_getaffinity(0))


FIRST_USE_SEED = 424242   # seed of the first-use run of a harness process (sim/hutil.h)
REPLAY_TIMEOUT = [RUN_TIMEOUT]   # wall-clock limit of one replay (set from spec['idle_limit'])
IS_KNOWN = [lambda rec: False]   # set by run_sim_check: does a violating record match an entry of known_findings.json?


class Worker:
    """runs one arithmetic progression of seeds, restarting the harness process after a fatal run"""

    def __init__(self, binary, variant, tier_num, first, count, stride, env=None, cpu=None, chunk=None, extra=None, idle=None):
        self.cpu = cpu
        self.chunk = chunk or CHUNK
        self.extra = extra or []
        self.binary, self.variant, self.tier_num = binary, variant, tier_num
        self.first, self.count, self.stride = first, count, stride
        self.env = env
        self.records, self.crashes = [], []
        self.idle = idle or RUN_TIMEOUT

    def go(self, deadline=None):
        nxt, left = self.first, self.count
        while left > 0:
            if deadline and time.time() > deadline:
                break
            if ABORT[0] >= MAX_VIOLATIONS:   # the tree is broken anyway: stop exploring
                break
            cmd = bin_cmd(self.binary) + ["--seeds", str(nxt), str(min(left, self.chunk)), str(self.stride), "--tier", str(self.tier_num), "--variant", self.variant] + self.extra
            if self.cpu is not None:   # all threads of one simulated process on one core: baton passing stays cheap
                cmd = ["taskset", "-c", str(self.cpu)] + cmd
            p = run_watched(cmd, self.env, self.idle * (3 if self.tier_num else 1))   # thorough plans are up to 100 times larger
            done = 0
            last_seed = None
            for line in p.stdout.splitlines():
                if not line.startswith("{"):
                    continue
                try:
                    rec = json.loads(line)
                except ValueError:
                    continue
                rec["variant"] = self.variant
                if rec.get("seed") == FIRST_USE_SEED:
                    # the unreported first-use run of the harness process ended in a violation: every process would die there again, so this
                    # worker stops; the record (it carries its plan and decisions) goes through minimisation and the gates like any other
                    if rec["cls"] == "memory-error":
                        rec["detail"] = sanitizer_summary(p.stderr)
                    self.records.append(rec)
                    ABORT[0] += 1
                    return self
                if rec["cls"] == "memory-error":
                    rec["detail"] = sanitizer_summary(p.stderr)
                self.records.append(rec)
                if rec["cls"] != "ok" and not IS_KNOWN[0](rec):   # a listed finding does not mean that the tree is broken: exploration goes on
                    ABORT[0] += 1
                done += 1
                last_seed = rec["seed"]
            if p.returncode == 0:
                if done == 0:
                    break
                nxt = last_seed + self.stride
                left -= done
                continue
            if done == 0 or self.records[-1]["cls"] == "ok":
                # the process died without reporting the run it was in: synthesise a record for that seed
                seed = nxt if last_seed is None else last_seed + self.stride
                self.records.append({"seed": seed, "cls": "hang" if p.returncode == -999 else "crash", "variant": self.variant, "detail": "exit status %d: %s" % (p.returncode, sanitizer_summary(p.stderr) or p.stderr[-300:]), "hash": "", "shash": "", "steps": 0, "ctr": {}, "abs": []})
                done += 1
                last_seed = seed
                ABORT[0] += 1
            nxt = last_seed + self.stride
            left -= done
        return self


def run_watched(cmd, env, idle_limit=None):
    """runs a harness process; it is killed when it prints nothing for 'idle_limit' seconds (wall-clock watchdog: a run that spins
    outside any scheduling point cannot be seen by the step budget).  Returns an object with returncode / stdout / stderr."""
    import threading
    idle_limit = idle_limit or RUN_TIMEOUT
    pr = subprocess.Popen(cmd, stdout=subprocess.PIPE, stderr=subprocess.PIPE, text=True, errors="replace", env=env)
    out, err, last = [], [], [time.time()]

    def rd(stream, sink):
        for line in stream:
            sink.append(line); last[0] = time.time()
    t1 = threading.Thread(target=rd, args=(pr.stdout, out)); t2 = threading.Thread(target=rd, args=(pr.stderr, err))
    t1.start(); t2.start()
    hung = False
    while pr.poll() is None:
        time.sleep(0.05)
        if time.time() - last[0] > (idle_limit if out else 8 * idle_limit):   # start-up (sanitizer, warm-up history) is given more time
            hung = True
            pr.kill()
            break
    pr.wait(); t1.join(); t2.join()

    class P:
        pass
    p = P(); p.returncode = -999 if hung else pr.returncode; p.stdout = "".join(out)
    p.stderr = "WATCHDOG: no result within %d s of wall clock (busy loop outside any scheduling point)" % idle_limit if hung else "".join(err)
    return p


def sanitizer_summary(stderr):
    for line in stderr.splitlines():
        if line.startswith("SUMMARY:"):
            return line.strip()
    for line in stderr.splitlines():
        if "runtime error:" in line:
            return line.strip()
    return ""


def replay_once(binary, rec, plan, decisions, tmp_path, env=None, timeout=None):
    """returns (class, record) of a fresh-process replay"""
    obj = {"property": rec.get("property", ""), "seed": rec["seed"], "variant": rec.get("variant", ""), "cfg": rec["cfg"], "plan": plan}
    if decisions is not None:
        obj["decisions"] = decisions
    json.dump(obj, open(tmp_path, "w"))
    try:
        p = subprocess.run(bin_cmd(binary) + ["--replay", tmp_path], stdout=subprocess.PIPE, stderr=subprocess.PIPE, text=True, errors="replace", env=env, timeout=timeout or REPLAY_TIMEOUT[0])
    except subprocess.TimeoutExpired:
        return "hang", {"detail": "WATCHDOG: no result within the wall-clock limit (busy loop outside any scheduling point)"}
    out = None
    for line in p.stdout.splitlines():
        if line.startswith("{"):
            try:
                out = json.loads(line)
            except ValueError:
                pass
    if out is None:
        return ("crash" if p.returncode != 0 else "no-output"), {"detail": p.stderr[-300:]}
    if out["cls"] == "memory-error":
        out["detail"] = sanitizer_summary(p.stderr)
    return out["cls"], out


def first_true(cands, test, par):
    """index of the first candidate (in order) for which test() holds, evaluating up to 'par' candidates concurrently;
    the answer does not depend on timing: candidates are examined in waves and the lowest passing index wins"""
    for w in range(0, len(cands), par):
        wave = cands[w:w + par]
        with concurrent.futures.ThreadPoolExecutor(max_workers=len(wave)) as ex:
            res = list(ex.map(test, wave))
        for i, ok in enumerate(res):
            if ok:
                return w + i
    return -1


def ddmin(items, test, budget, par=8):
    """delta debugging over a list; test(sublist) -> True when the violation persists"""
    n = 2
    while len(items) >= 2 and budget[0] > 0:
        chunk = max(1, len(items) // n)
        subsets = [items[i:i + chunk] for i in range(0, len(items), chunk)]
        comps = [[x for j, s in enumerate(subsets) if j != i for x in s] for i in range(len(subsets))]
        comps = comps[:max(1, budget[0])]
        budget[0] -= len(comps)
        k = first_true(comps, test, par)
        if k >= 0:
            items, n = comps[k], max(n - 1, 2)
        else:
            if n >= len(items):
                break
            n = min(len(items), n * 2)
    if len(items) == 1 and budget[0] > 0:
        budget[0] -= 1
        if test([]):
            items = []
    return items


_tmp_counter = [0]


def minimise(binary, rec, signature, tmp_path, max_trials=400, env=None):
    import threading
    cls, sig = rec["cls"], signature(rec)
    plan = {"params": list(rec["plan"]["params"]), "ops": [list(o) for o in rec["plan"]["ops"]], "faults": [list(f) for f in rec["plan"]["faults"]]}
    prng_mode = rec.get("decisions") is None    # no recorded decisions: the schedule is re-derived from cfg.seed on every replay
    dec = None if prng_mode else list(rec.get("decisions", []))
    budget = [max_trials if not prng_mode else min(max_trials, 40)]
    trials = [0]
    lock = threading.Lock()

    def same(p, d):
        with lock:
            trials[0] += 1
            _tmp_counter[0] += 1
            tp = "%s.%d" % (tmp_path, _tmp_counter[0])
        try:
            c, o = replay_once(binary, rec, p, d, tp, env)
        finally:
            if os.path.exists(tp):
                os.remove(tp)
        if c != cls:
            return False
        o.setdefault("variant", rec.get("variant", ""))
        o.setdefault("cls", c)
        return signature(o) == sig

    if not same(plan, dec):
        return None, trials[0]
    plan["ops"] = ddmin(plan["ops"], lambda ops: same(dict(plan, ops=ops), dec), budget)
    plan["faults"] = ddmin(plan["faults"], lambda fs: same(dict(plan, faults=fs), dec), budget)
    pmin = rec.get("param_min", [])
    for i in range(len(plan["params"])):
        while plan["params"][i] > (pmin[i] if i < len(pmin) else 0) and budget[0] > 0:
            budget[0] -= 1
            q = list(plan["params"]); q[i] -= 1
            if same(dict(plan, params=q), dec):
                plan["params"] = q
            else:
                break
    if prng_mode:
        c, o = replay_once(binary, rec, plan, None, tmp_path, env)
        if c != cls:
            return None, trials[0]
        return {"property": rec.get("property", ""), "seed": rec["seed"], "variant": rec.get("variant", ""), "cfg": rec["cfg"], "plan": plan, "class": cls, "signature": sig, "detail": o.get("detail", ""),
                "hash": o.get("hash", ""), "text": o.get("text", rec.get("text", "")), "original": {"ops": len(rec["plan"]["ops"]), "faults": len(rec["plan"]["faults"])},
                "minimised": {"ops": len(plan["ops"]), "faults": len(plan["faults"]), "schedule": "re-derived from the seed"}, "trials": trials[0]}, trials[0]
    # decisions: shortest prefix (the default policy "keep running the current thread" takes over afterwards)
    lo, hi = 0, len(dec)
    while lo < hi and budget[0] > 0:
        mid = (lo + hi) // 2
        budget[0] -= 1
        if same(plan, dec[:mid]):
            hi = mid
        else:
            lo = mid + 1
    if hi < len(dec) and same(plan, dec[:hi]):
        dec = dec[:hi]
    # then zero whole blocks of decisions ("keep running the current thread"), halving the block size
    blk = max(1, len(dec) // 4)
    while blk >= 1 and budget[0] > 0:
        cands = []
        for i in range(0, len(dec), blk):
            if any(dec[i:i + blk]):
                cands.append(dec[:i] + [0] * len(dec[i:i + blk]) + dec[i + blk:])
        cands = cands[:max(1, budget[0])]
        budget[0] -= len(cands)
        # greedy: accept passing candidates one after the other (each re-checked against the current list)
        with concurrent.futures.ThreadPoolExecutor(max_workers=8) as ex:
            res = list(ex.map(lambda d: same(plan, d), cands))
        changed = False
        for cnd, okc in zip(cands, res):
            if okc:
                merged = [a if (a == b) else 0 for a, b in zip(dec, cnd)]
                if merged != dec:
                    budget[0] -= 1
                    if same(plan, merged):
                        dec = merged; changed = True
        if not changed or blk == 1:
            blk //= 2
    while dec and dec[-1] == 0:
        dec.pop()
    c, o = replay_once(binary, rec, plan, dec, tmp_path, env)
    out = {"property": rec.get("property", ""), "seed": rec["seed"], "variant": rec.get("variant", ""), "cfg": rec["cfg"], "plan": plan, "decisions": dec,
           "class": cls, "signature": sig, "detail": o.get("detail", ""), "hash": o.get("hash", ""), "text": o.get("text", ""),
           "original": {"ops": len(rec["plan"]["ops"]), "faults": len(rec["plan"]["faults"]), "decisions": len(rec.get("decisions", []))},
           "minimised": {"ops": len(plan["ops"]), "faults": len(plan["faults"]), "decisions": len(dec), "nonzero_decisions": sum(1 for x in dec if x)}, "trials": trials[0]}
    if c != cls:
        return None, trials[0]
    return out, trials[0]


def run_sim_check(spec, args):
    """spec keys: pid, level, binaries {variant: path}, runs {'quick': n, 'thorough': n}, signature(rec)->str,
    nontrivial(rec)->bool, rule, assumptions, components, required_probes, env"""
    pid = spec["pid"]
    t0 = time.time()
    env = spec.get("env")
    binaries = spec["binaries"]
    variants = sorted(binaries)
    sig_fn = spec["signature"]
    known0 = load_known(pid)

    def is_known(rec):
        try:
            return match_known(known0, rec["cls"], sig_fn(rec)) is not None
        except Exception:
            return False
    IS_KNOWN[0] = is_known
    REPLAY_TIMEOUT[0] = spec.get("idle_limit") or RUN_TIMEOUT

    if args.replay:
        rep = json.load(open(args.replay))
        v = rep.get("variant", "") or variants[0]
        b = binaries.get(v, binaries[variants[0]])
        p = subprocess.run(bin_cmd(b) + ["--replay", args.replay], stdout=subprocess.PIPE, stderr=subprocess.PIPE, text=True, errors="replace", env=env)
        cls, out = "no-output", {}
        for line in p.stdout.splitlines():
            if line.startswith("{"):
                out = json.loads(line); cls = out["cls"]
        if cls == "memory-error":
            out["detail"] = sanitizer_summary(p.stderr)
        log("replay: class=%s steps=%s hash=%s" % (cls, out.get("steps"), out.get("hash")))
        log("replay: %s" % out.get("text", ""))
        if cls != "ok":
            log("replay: %s" % out.get("detail", ""))
            if "class" in rep and rep["class"] != cls:
                log("replay: NOTE expected class %s" % rep["class"])
            log("VIOLATION property=%s replay=%s" % (pid, os.path.abspath(args.replay)))
            return 1
        return 0

    tier_num = 0 if args.tier == "quick" else 1
    total = args.runs or spec["runs"][args.tier]
    budget_s = args.budget or (spec.get("thorough_budget_s", 900) if args.tier == "thorough" else 0)
    deadline = t0 + budget_s if (args.tier == "thorough" and budget_s) else None
    base = args.seed * 1000000
    records = []
    rounds = 0
    while True:
        vr = spec.get("variant_runs", {})
        plain = [v for v in variants if v not in vr]
        per_variant = (total - sum(vr.values())) // max(1, len(plain))
        workers = []
        off = 0
        for vi, v in enumerate(variants):
            nruns = vr.get(v, per_variant)
            nw = max(1, min(NPROC // len(variants), (nruns + 99) // 100))
            for w in range(nw):
                cnt = (nruns - w + nw - 1) // nw
                if cnt > 0:
                    extra = ["--workdir", os.path.join(spec["workdir"], "w%d" % len(workers))] if spec.get("workdir") else None
                    workers.append(Worker(binaries[v], v, tier_num, base + rounds * total + off + w, cnt, nw, env, cpu=CPUS[len(workers) % len(CPUS)], chunk=spec.get("chunk"), extra=extra, idle=spec.get("idle_limit")))
            off += 0   # every variant explores the same seeds: differences between variants are then attributable to the variant
        with concurrent.futures.ThreadPoolExecutor(max_workers=len(workers)) as ex:
            list(ex.map(lambda w: w.go(deadline), workers))
        for w in workers:
            records.extend(w.records)
        rounds += 1
        nviol = sum(1 for r in records if r["cls"] != "ok")
        if args.tier != "thorough" or deadline is None or time.time() > deadline or nviol >= MAX_VIOLATIONS:
            break
    t_explore = time.time() - t0

    # ---------------- determinism resampling (fresh processes, different partition)
    by_key = {(r["variant"], r["seed"]): r for r in records}
    sample = sorted(by_key)[::20][:2000]
    mism = []
    def resample(keys):
        out = []
        for (v, s) in keys:
            w = Worker(binaries[v], v, tier_num, s, 1, 1, env, chunk=spec.get("chunk"), idle=spec.get("idle_limit")).go()
            if w.records:
                out.append(((v, s), w.records[0]))
        return out
    chunks = [sample[i::NPROC] for i in range(NPROC)]
    with concurrent.futures.ThreadPoolExecutor(max_workers=NPROC) as ex:
        for res in ex.map(resample, chunks):
            for key, r2 in res:
                r1 = by_key[key]
                if "hang" in (r1["cls"], r2["cls"]):
                    continue   # a verdict of the wall-clock watchdog, not of the simulation: decided by the replay of the run alone (see below)
                if (r1["cls"], r1.get("hash")) != (r2["cls"], r2.get("hash")) and not (r1["cls"] in ("crash", "memory-error") and r2["cls"] in ("crash", "memory-error")):
                    mism.append((key, r1["cls"], r1.get("hash"), r2["cls"], r2.get("hash")))
    if mism:
        log("MACHINERY ERROR: %d of %d resampled runs were not reproduced bit-for-bit, e.g. %s" % (len(mism), len(sample), mism[0]))
        return 2

    # ---------------- aggregate
    ok = [r for r in records if r["cls"] == "ok"]
    viol = [r for r in records if r["cls"] != "ok"]
    ctr = {}
    for r in records:
        for k, v in r.get("ctr", {}).items():
            ctr[k] = ctr.get(k, 0) + v
    runs_with = {}
    for r in records:
        for k, v in r.get("ctr", {}).items():
            if v:
                runs_with[k] = runs_with.get(k, 0) + 1
    nontrivial = spec["nontrivial"]
    distinct = len({(r["variant"], r["shash"]) for r in records if nontrivial(r)})
    abs_states = set()
    for r in records:
        abs_states.update(r.get("abs", []))
    steps = sum(r.get("steps", 0) for r in records)
    classes = {}
    for r in viol:
        classes[r["cls"]] = classes.get(r["cls"], 0) + 1
    samples = [{"seed": r["seed"], "variant": r["variant"], "steps": r["steps"], "threads": r.get("threads"), "workload": r["text"]} for r in records if "text" in r and r["cls"] == "ok"][:6]

    # ---------------- violations: group by signature, minimise, gate
    known = load_known(pid)
    groups = {}
    for r in viol:
        groups.setdefault((r["cls"], sig_fn(r)), []).append(r)
    exit_code = 0
    reported = []
    rd = replay_dir(pid)
    machinery_errors = []
    watchdog_artefacts = []

    def handle_group(item):
        gi, key = item
        cls, sig = key
        lines = []
        g = sorted(groups[key], key=lambda r: (len(r.get("decisions") or []), r["seed"]))
        rec = g[0]
        rec["property"] = pid
        rec["param_min"] = spec.get("param_min", [])
        kf = match_known(known, cls, sig)
        path = os.path.join(rd, "%s_%s_%d.json" % (cls, sha(sig)[:8], rec["seed"]))
        mini = None
        if "plan" not in rec:
            # the run never reported (hard crash, watchdog): regenerate its plan from the seed; the schedule is then re-derived from the
            # same seed on replay (PRNG mode), which reproduces the run exactly
            pp = subprocess.run(bin_cmd(binaries[rec["variant"]]) + ["--seeds", str(rec["seed"]), "1", "1", "--tier", str(tier_num), "--variant", rec["variant"], "--plan-only"], stdout=subprocess.PIPE, stderr=subprocess.PIPE, text=True, errors="replace", env=env)
            for line in pp.stdout.splitlines():
                if line.startswith("{"):
                    pr = json.loads(line)
                    rec["plan"], rec["cfg"], rec["text"] = pr["plan"], pr["cfg"], pr.get("text", "")
            rec["decisions"] = None
        if cls == "hang" and "plan" in rec:
            # the watchdog is a wall-clock device (no output for RUN_TIMEOUT seconds): on a loaded machine a long run can trip it.  The run is
            # replayed alone with six times the limit; when it completes normally it was no hang, and it is only counted.
            c0, o0 = replay_once(binaries[rec["variant"]], rec, rec["plan"], rec.get("decisions"), path + ".slow", env, timeout=6 * REPLAY_TIMEOUT[0])
            if os.path.exists(path + ".slow"):
                os.remove(path + ".slow")
            if c0 == "ok":
                watchdog_artefacts.append({"seed": rec["seed"], "variant": rec["variant"], "runs": len(g)})
                log("note: seed %d (variant %s) hit the wall-clock watchdog and completed normally when replayed alone: counted, no violation" % (rec["seed"], rec["variant"]))
                return None
        if "plan" not in rec:
            json.dump({"property": pid, "seed": rec["seed"], "variant": rec["variant"], "class": cls, "detail": rec.get("detail", "")}, open(path, "w"), indent=1)
        else:
            mini, trials = minimise(binaries[rec["variant"]], rec, sig_fn, path + ".tmp", max_trials=(100 if gi >= 6 or kf else 400), env=env)
            if mini is None:
                machinery_errors.append("violation %s (seed %d, variant %s) did not reproduce in a fresh process" % (cls, rec["seed"], rec["variant"]))
                return None
            json.dump(mini, open(path, "w"), indent=1)
            # gate: the minimised file must fail the same way, twice, in fresh processes
            c1, o1 = replay_once(binaries[rec["variant"]], mini, mini["plan"], mini.get("decisions"), path + ".chk1", env)
            c2, o2 = replay_once(binaries[rec["variant"]], mini, mini["plan"], mini.get("decisions"), path + ".chk2", env)
            os.remove(path + ".chk1"); os.remove(path + ".chk2")
            if c1 != cls or c2 != cls or o1.get("hash") != o2.get("hash"):
                machinery_errors.append("minimised replay of %s is not stable (%s/%s)" % (cls, c1, c2))
                return None
        entry = {"class": cls, "signature": sig, "count": len(g), "first_seed": rec["seed"], "variant": rec["variant"], "replay": path,
                 "detail": (mini or rec).get("detail", "")[:600], "minimised": (mini or {}).get("minimised"), "original": (mini or {}).get("original"), "workload": (mini or rec).get("text", "")}
        if kf:
            entry["known_finding"] = kf.get("id", "")
            lines.append("KNOWN-FINDING: property=%s %s [%s; %d runs; replay=%s]" % (pid, kf.get("what", sig), cls, len(g), path))
        else:
            lines.append("VIOLATION property=%s replay=%s" % (pid, path))
            lines.append("  class=%s signature=%s runs=%d/%d first_seed=%d variant=%s" % (cls, sig, len(g), len(records), rec["seed"], rec["variant"]))
            lines.append("  %s" % entry["detail"])
            if mini:
                lines.append("  minimised %s -> %s in %d replays: %s" % (mini["original"], mini["minimised"], mini["trials"], mini.get("text", "")))
        return entry, lines

    with concurrent.futures.ThreadPoolExecutor(max_workers=4) as ex:
        results = list(ex.map(handle_group, enumerate(sorted(groups))))
    results = [r for r in results if r is not None]
    if machinery_errors:
        # A symptom that does not replay (typically undefined behaviour reading garbage: the same defect shows up as several classes, some of
        # which depend on what the freed memory happens to hold) is never reported as a violation.  When every symptom is of that kind the
        # machinery cannot stand behind anything it saw: exit 2.  When other classes of the same run did pass both gates they are reported
        # on their own merits and the unstable ones are only listed.
        for m in machinery_errors:
            log(("UNSTABLE (not counted): " if results else "MACHINERY ERROR: ") + m)
        if not results:
            return 2
    for entry, lines in results:
        for l in lines:
            log(l)
        if "known_finding" not in entry:
            exit_code = 1
        reported.append(entry)

    # ---------------- reach: required probes must not be stuck at zero (selftest-style warning, not a verdict)
    missing = [p for p in spec.get("required_probes", []) if not ctr.get(p)]
    if missing and exit_code == 0 and not viol:
        log("WARNING: reach probes stuck at zero: %s" % ", ".join(missing))

    wall = time.time() - t0
    coverage = {
        "evaluations": len(records),
        "distinct_nontrivial": distinct,
        "rule": spec["rule"],
        "samples": samples or [{"note": "no ok sample recorded"}],
        "exhaustive": False,
        "runs_ok": len(ok), "runs_violating": len(viol), "violation_classes": classes,
        "variants": variants,
        "simulated_steps_total": steps,
        "simulated_time_note": "logical scheduling steps (no wall clock exists in this surface)",
        "runs_per_hour": int(len(records) / max(t_explore, 1e-3) * 3600),
        "seeds": {"base": base, "count": len(records), "verif_seed": args.seed},
        "distinct_interleavings_measure": "distinct hashes of the thread/child-event choice sequence among non-trivial runs",
        "distinct_abstract_states": len(abs_states),
        "fault_and_event_counters_fired": dict(sorted(ctr.items())),
        "runs_in_which_fired": dict(sorted(runs_with.items())),
        "probes_required_nonzero": spec.get("required_probes", []),
        "probes_missing": missing,
        "determinism_resampled_runs": len(sample), "determinism_mismatches": 0,
        "components": spec["components"],
        "findings": reported,
        "watchdog_timeouts_that_completed_when_replayed_alone": watchdog_artefacts,
    }
    if not args.no_evidence:
        write_evidence(pid, args.tier, args.seed, spec["level"], coverage, spec["assumptions"], wall, sum(1 for e in reported if "known_finding" not in e))
    log("%s %s: %d runs (%d ok, %d violating in %d classes), %d distinct non-trivial interleavings, %d abstract states, %.1fs" % (pid, args.tier, len(records), len(ok), len(viol), len(groups), distinct, len(abs_states), wall))
    return exit_code
