"""Driver for the fault-enumeration harnesses (C08, C09, C40 mock tier): the harness enumerates its fault space itself and
prints one JSON line per violation / sample plus a final summary line; a single case is re-run with `--case <ints...>`.
Every case is a pure function of its integer tuple, so replay is exact by construction; the gate still re-runs every
reported violation in a fresh process and requires the same class."""
import json, os, subprocess, sys, time
from common import *


def run_harness(cmd, env=None, timeout=3600):
    p = subprocess.run(cmd, stdout=subprocess.PIPE, stderr=subprocess.PIPE, text=True, errors="replace", env=env, timeout=timeout)
    recs, summary = [], None
    for line in p.stdout.splitlines():
        if not line.startswith("{"):
            continue
        try:
            r = json.loads(line)
        except ValueError:
            continue
        if r.get("summary"):
            summary = r
        else:
            recs.append(r)
    return p.returncode, recs, summary, p.stderr


def run_enum_check(spec, args):
    """spec: pid, level, binary (path), shards (list of extra-arg lists, run in parallel; quick/thorough variants),
    signature(rec)->str, rule, assumptions, components, nontrivial_key (summary key counting distinct non-trivial cases)"""
    pid = spec["pid"]
    t0 = time.time()
    binary = spec["binary"]
    sig_fn = spec["signature"]
    if args.replay:
        rep = json.load(open(args.replay))
        b = spec["binary_for_case"](rep["case"]) if spec.get("binary_for_case") else binary
        rc, recs, _, err = run_harness([b, "--case"] + [str(x) for x in rep["case"]])
        cls = recs[0]["cls"] if recs else ("crash" if rc else "no-output")
        log("replay: class=%s %s" % (cls, json.dumps(recs[0]) if recs else err[-400:]))
        if cls not in ("ok", "sample"):
            log("VIOLATION property=%s replay=%s" % (pid, os.path.abspath(args.replay)))
            return 1
        return 0

    shards = spec["shards"][args.tier]
    import concurrent.futures
    with concurrent.futures.ThreadPoolExecutor(max_workers=NPROC) as ex:
        results = list(ex.map(lambda a: run_harness(([binary] if binary else []) + a + ["--seed", str(args.seed)]), shards))
    recs, summaries = [], []
    for (rc, r, s, err), a in zip(results, shards):
        if rc != 0 or s is None:
            # a sanitizer abort or crash inside the harness: reported as a violation of class 'crash' for that shard
            recs.append({"cls": "crash", "case": [], "detail": "shard %s: exit %d: %s" % (a, rc, (err.strip().splitlines() or [""])[-1][:300]), "stderr": err[-2000:]})
            continue
        recs.extend(r)
        summaries.append(s)
    viol = [r for r in recs if r["cls"] not in ("ok", "sample")]
    samples = [r for r in recs if r["cls"] == "sample"][:8]
    total = {}
    for s in summaries:
        for k, v in s.items():
            if isinstance(v, (int, float)) and not isinstance(v, bool):
                total[k] = total.get(k, 0) + v
            elif isinstance(v, dict):
                d = total.setdefault(k, {})
                for kk, vv in v.items():
                    d[kk] = d.get(kk, 0) + vv
    known = load_known(pid)
    groups = {}
    for r in viol:
        groups.setdefault((r["cls"], sig_fn(r)), []).append(r)
    rd = replay_dir(pid)
    exit_code, reported = 0, []
    for (cls, sig) in sorted(groups):
        g = groups[(cls, sig)]
        rec = g[0]
        path = os.path.join(rd, "%s_%s.json" % (cls, sha(sig)[:8]))
        json.dump({"property": pid, "class": cls, "signature": sig, "case": rec.get("case", []), "record": rec}, open(path, "w"), indent=1)
        if rec.get("case"):
            b = spec["binary_for_case"](rec["case"]) if spec.get("binary_for_case") else binary
            rc, rr, _, err = run_harness([b, "--case"] + [str(x) for x in rec["case"]])
            c2 = rr[0]["cls"] if rr else "crash"
            if c2 != cls:
                log("MACHINERY ERROR: case %s gave %s in the batch and %s alone" % (rec["case"], cls, c2))
                return 2
        kf = match_known(known, cls, sig)
        entry = {"class": cls, "signature": sig, "count": len(g), "replay": path, "first": {k: v for k, v in rec.items() if k != "stderr"}}
        if kf:
            entry["known_finding"] = kf.get("id", "")
            log("KNOWN-FINDING: property=%s %s [%s; %d cases; replay=%s]" % (pid, kf.get("what", sig), cls, len(g), path))
        else:
            exit_code = 1
            log("VIOLATION property=%s replay=%s" % (pid, path))
            log("  class=%s signature=%s cases=%d" % (cls, sig, len(g)))
            log("  first: %s" % json.dumps({k: v for k, v in rec.items() if k != "stderr"})[:700])
        reported.append(entry)
    wall = time.time() - t0
    cases = int(total.get("cases", 0))
    nontrivial = int(total.get(spec.get("nontrivial_key", "fault_reached"), 0))
    coverage = {
        "evaluations": max(cases, 1),
        "distinct_nontrivial": nontrivial,
        "rule": spec["rule"],
        "samples": samples or [{"note": "no sample printed"}],
        "exhaustive": bool(spec.get("exhaustive", {}).get(args.tier, False)),
        "summary_counters": total,
        "fault_kinds_injected": total.get(spec.get("fault_kinds_key", "failed_by_stage"), {}),
        "cases_per_hour": int(cases / max(wall, 1e-3) * 3600),
        "components": spec["components"],
        "findings": reported,
        "shards": len(shards),
    }
    if not args.no_evidence:
        write_evidence(pid, args.tier, args.seed, spec["level"], coverage, spec["assumptions"], wall, sum(1 for e in reported if "known_finding" not in e))
    log("%s %s: %d cases, %d with an injected fault reached, %d violating in %d classes, %.1fs" % (pid, args.tier, cases, nontrivial, len(viol), len(groups), wall))
    return exit_code
