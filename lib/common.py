"""Shared helpers for the /verif checks: paths, parallel compilation from /repo's working tree, evidence files,
known findings, the common command line.  Standard library only; nothing here reads a clock for anything but
wall-time reporting, and no set/dict iteration order influences a verdict (everything is sorted)."""
import argparse, concurrent.futures, hashlib, json, os, re, shutil, subprocess, sys, time

VERIF = os.path.dirname(os.path.dirname(os.path.abspath(__file__)))
REPO = os.environ.get("VERIF_REPO") or "/repo"   # an empty value means the default too
BUILD = os.path.join(VERIF, "build")
TFEL_BUILD = os.path.join(BUILD, "tfel")
WORK = os.path.join(VERIF, "work")
NPROC = min(16, os.cpu_count() or 1)
CXX = "g++"
SAN = ["-fsanitize=address,undefined", "-fno-omit-frame-pointer", "-fno-sanitize-recover=undefined"]
REPO_INC = ["-I" + os.path.join(REPO, "include")]


def tfel_inc():
    """generated config headers (TFEL/Config/*.hxx) come from the private build tree"""
    return ["-I" + os.path.join(TFEL_BUILD, "include")]


def log(*a):
    print(*a, flush=True)


def run(cmd, **kw):
    return subprocess.run(cmd, stdout=subprocess.PIPE, stderr=subprocess.PIPE, text=True, errors="replace", **kw)


def compile_objects(outdir, units, jobs=NPROC):
    """units: list of (source, [flags]); compiles every unit (always: the tree may have changed) in parallel.
    Returns the list of objects; raises SystemExit(2) with the compiler output when the tree does not compile."""
    os.makedirs(outdir, exist_ok=True)
    objs = []

    def one(i, src, flags):
        obj = os.path.join(outdir, "%02d_%s.o" % (i, re.sub(r"[^A-Za-z0-9]", "_", os.path.basename(src))))
        cc = "gcc" if src.endswith(".c") else CXX
        cmd = [cc] + ([] if src.endswith(".c") else ["-std=c++20"]) + flags + ["-c", src, "-o", obj]
        r = run(cmd)
        return obj, r.returncode, r.stderr, cmd

    with concurrent.futures.ThreadPoolExecutor(max_workers=jobs) as ex:
        futs = [ex.submit(one, i, s, f) for i, (s, f) in enumerate(units)]
        for f in futs:
            obj, rc, err, cmd = f.result()
            if rc != 0:
                log("BUILD FAILED:", " ".join(cmd))
                log(err[-4000:])
                raise SystemExit(2)
            objs.append(obj)
    return objs


ALLOC_SYMS = {"_Znwm": "vsim_Znwm", "_Znam": "vsim_Znam", "_ZdlPv": "vsim_ZdlPv", "_ZdaPv": "vsim_ZdaPv", "_ZdlPvm": "vsim_ZdlPvm", "_ZdaPvm": "vsim_ZdaPvm"}


def redirect_allocator(objs):
    """the objects compiled from /repo call the simulator's allocator entry points instead of operator new / delete (sim/vsim.cpp, VSIM_PROC):
    an allocation can then be a scheduling point 'inside malloc', and a signal handler that allocates on top of it is seen"""
    args = []
    for a, b in sorted(ALLOC_SYMS.items()):
        args += ["--redefine-sym", "%s=%s" % (a, b)]
    for o in objs:
        r = run(["objcopy"] + args + [o])
        if r.returncode != 0:
            log("objcopy failed on %s: %s" % (o, r.stderr[-500:])); raise SystemExit(2)


def link(out, objs, flags):
    r = run([CXX] + objs + flags + ["-o", out])
    if r.returncode != 0:
        log("LINK FAILED:", r.stderr[-4000:])
        raise SystemExit(2)
    return out


def build_vsim_race(outdir, proc=False, wraps=()):
    """the simulator with the race detector (own implementation of the __tsan_* entry points) as a shared object linked with
    -Bsymbolic: its internal template instantiations must never be replaced by instrumented copies from the executable"""
    os.makedirs(outdir, exist_ok=True)
    so = os.path.join(outdir, "libvsimrace.so")
    cmd = [CXX, "-std=c++20", "-O1", "-g", "-fPIC", "-shared", "-DVSIM_RACE"] + (["-DVSIM_PROC"] if proc else []) + [os.path.join(VERIF, "sim/vsim.cpp"), "-o", so,
           "-Wl,-Bsymbolic"] + ["-Wl,--wrap=" + w for w in wraps] + ["-ldl", "-lpthread"]
    r = run(cmd)
    if r.returncode != 0:
        log("BUILD FAILED:", " ".join(cmd)); log(r.stderr[-4000:]); raise SystemExit(2)
    return so


_tfel_built = False


def ensure_tfel(targets=("mfront", "mtest", "tfel-check")):
    """(Re)build the real binaries from /repo's working tree in the private build tree (incremental ninja, under flock)."""
    global _tfel_built
    os.makedirs(BUILD, exist_ok=True)
    lock = os.path.join(BUILD, ".tfel.lock")
    t0 = time.time()
    cmd = ["flock", lock, os.path.join(VERIF, "bin", "build-tfel")] + list(targets)
    r = subprocess.run(cmd, stdout=subprocess.PIPE, stderr=subprocess.STDOUT, text=True, errors="replace")
    if r.returncode != 0:
        log("BUILD FAILED (private TFEL tree):")
        log(r.stdout[-6000:])
        raise SystemExit(2)
    _tfel_built = True
    return time.time() - t0


def tfel_env():
    """environment to run the privately built binaries"""
    libs = [os.path.join(TFEL_BUILD, d) for d in (
        "src/Exception", "src/Utilities", "src/System", "src/Math", "src/Material", "src/Glossary", "src/Numodis",
        "src/NUMODIS", "src/Tests", "src/UnicodeSupport", "src/Config", "mfront/src", "mtest/src", "tfel-check/src", "src/Check", "mfm-test-generator/src")]
    e = dict(os.environ)
    e["LD_LIBRARY_PATH"] = ":".join(libs)
    e.pop("TFELHOME", None)
    return e


# ------------------------------------------------------------------ command line shared by every check
def parse_args(pid):
    ap = argparse.ArgumentParser(prog="check " + pid)
    ap.add_argument("--tier", choices=["quick", "thorough"], default=os.environ.get("VERIF_TIER", "quick"))
    ap.add_argument("--replay", default=None)
    ap.add_argument("--budget", type=float, default=float(os.environ.get("VERIF_BUDGET_S", "0")), help="thorough: time box in seconds")
    ap.add_argument("--runs", type=int, default=0, help="override the number of runs")
    ap.add_argument("--no-evidence", action="store_true", help="do not rewrite the evidence file (used by selftests)")
    a = ap.parse_args()
    a.seed = int(os.environ.get("VERIF_SEED", "1") or "1")
    return a


# ------------------------------------------------------------------ known findings
def load_known(pid):
    p = os.path.join(VERIF, "known_findings.json")
    if not os.path.exists(p):
        return []
    d = json.load(open(p))
    return [f for f in d.get("findings", []) if f.get("property") == pid]


def match_known(known, cls, signature):
    for f in known:
        if f.get("class") == cls and re.search(f.get("signature_regex", "^$"), signature):
            return f
    return None


# ------------------------------------------------------------------ evidence
def write_evidence(pid, tier, seed, level, coverage, assumptions, wall_s, violations, extra=None):
    os.makedirs(os.path.join(VERIF, "evidence"), exist_ok=True)
    ev = {"property_id": pid, "tier": tier, "seed": int(seed), "level": level, "coverage": coverage,
          "assumptions": assumptions, "wall_s": round(wall_s, 2), "violations": int(violations)}
    if extra:
        ev.update(extra)
    path = os.path.join(VERIF, "evidence", pid + ".json")
    tmp = path + ".tmp"
    json.dump(ev, open(tmp, "w"), indent=1, sort_keys=True)
    os.replace(tmp, path)
    return path


def replay_dir(pid):
    d = os.path.join(VERIF, "replays", pid)
    os.makedirs(d, exist_ok=True)
    return d


def fresh_workdir(name):
    d = os.path.join(WORK, "%s.%07d" % (name, os.getpid()))   # fixed length: the length of a scratch path ends up in logs and buffer boundaries
    shutil.rmtree(d, ignore_errors=True)
    os.makedirs(d)
    return d


def sha(s):
    return hashlib.sha256(s.encode() if isinstance(s, str) else s).hexdigest()
