#!/usr/bin/env python3
"""Self-tests of the machinery (DESIGN.md §6).

  selftest.py determinism [N]   every simulator configuration: N seeds (default 2000) are run in one process, in 4 and in 16
                                processes (different partitions of the same seeds) and the complete result lines (log hash,
                                schedule hash, steps, every counter, abstract states) are diffed; the process-level simulator of
                                C46 is run under two PYTHONHASHSEED values.
  selftest.py seeded [name...]  every change kept under /verif/seeded/<id>/ is applied to /repo in turn, the quick check of the
                                property it breaks is run (it must exit 1 with a VIOLATION line) and /repo is restored.
"""
import concurrent.futures, json, os, subprocess, sys, time
sys.path.insert(0, os.path.dirname(os.path.abspath(__file__)))
sys.path.insert(0, os.path.join(os.path.dirname(os.path.abspath(__file__)), "..", "checks"))
from common import *


def lines_of(cmd, env=None):
    p = subprocess.run(cmd, stdout=subprocess.PIPE, stderr=subprocess.DEVNULL, text=True, errors="replace", env=env)
    out = {}
    for l in p.stdout.splitlines():
        if l.startswith("{"):
            r = json.loads(l)
            r.pop("text", None); r.pop("plan", None); r.pop("cfg", None); r.pop("variant", None)
            out[r["seed"]] = json.dumps(r, sort_keys=True)
    return out


def partitioned(binary, extra, first, n, parts, tier):
    """runs seeds first..first+n-1 split over 'parts' workers (arithmetic progressions, harness processes restarted after a fatal run exactly
    as the checks do), returns {seed: canonical result line}"""
    import orch
    orch.MAX_VIOLATIONS = 10 ** 9   # runs that end in a (known) finding are part of the comparison: never stop early
    b = binary if isinstance(binary, (list, tuple)) else (binary, list(extra))
    if not isinstance(binary, (list, tuple)):
        b = (binary, list(extra))
    ws = [orch.Worker(b, "selftest", tier, first + w, (n - w + parts - 1) // parts, parts, None, cpu=w % NPROC, chunk=100, idle=60) for w in range(parts)]
    with concurrent.futures.ThreadPoolExecutor(max_workers=min(parts, NPROC)) as ex:
        list(ex.map(lambda w: w.go(), ws))
    out = {}
    for w in ws:
        for r in w.records:
            r = dict(r)
            for k in ("text", "plan", "cfg", "variant", "detail", "decisions"):
                r.pop(k, None)
            # the numbers of instrumented accesses checked by the race variant count what the *process* executed (a container that kept its
            # capacity from an earlier run performs fewer writes): reach counters, not decisions; everything else must be identical
            r["ctr"] = {k: v for k, v in r.get("ctr", {}).items() if not k.startswith("race_")}
            out[r["seed"]] = json.dumps(r, sort_keys=True)
    return out


def determinism(n):
    import C29, C30, C52
    bad = 0
    configs = []
    b29 = C29.build()["asan"]
    configs.append(("C29", b29, [], 0)); configs.append(("C29/thorough-plans", b29, [], 1))
    b30 = C30.build()
    configs.append(("C30/zero", b30["zero"], ["--variant", "zero"], 0)); configs.append(("C30/pattern", b30["pattern"], ["--variant", "pattern"], 0))
    wd = fresh_workdir("selftest52")
    b52 = C52.build()
    configs.append(("C52", b52["asan"], ["--workdir", wd], 0)); configs.append(("C52/race", b52["race"], ["--workdir", wd], 0)); configs.append(("C29/race", C29.build()["race"], [], 0))
    for name, binary, extra, tier in configs:
        t0 = time.time()
        nn = n if not name.startswith("C52") and tier == 0 else max(200, n // 5)
        a = partitioned(binary, extra, 5000000, nn, 1, tier)
        b = partitioned(binary, extra, 5000000, nn, 4, tier)
        c = partitioned(binary, extra, 5000000, nn, 16, tier)
        diff = [s for s in sorted(a) if a[s] != b.get(s) or a[s] != c.get(s)]
        missing = nn - len(a)
        log("determinism %-20s %5d seeds x 3 partitions (1/4/16 processes): %d differing, %d missing, %.0fs" % (name, nn, len(diff), missing, time.time() - t0))
        if diff:
            s = diff[0]
            log("   first difference, seed %d:\n   %s\n   %s\n   %s" % (s, a[s][:300], b.get(s, "")[:300], c.get(s, "")[:300]))
        bad += len(diff) + missing
    import shutil
    shutil.rmtree(wd, ignore_errors=True)
    # process-level simulator of C46 under two hash seeds
    import C46
    drv, so = C46.build()
    me = os.path.join(VERIF, "checks", "C46.py")
    outs = []
    for hs in ("0", "98765"):
        env = dict(os.environ, PYTHONHASHSEED=hs)
        p = subprocess.run([sys.executable, me, "--worker", drv, "0", "7000000", "150", "1"], stdout=subprocess.PIPE, stderr=subprocess.PIPE, text=True, errors="replace", env=env)
        outs.append([json.dumps({k: v for k, v in json.loads(l).items() if k in ("seed", "cls", "hash", "shash", "steps", "decisions")}, sort_keys=True) for l in p.stdout.splitlines() if l.startswith("{")])
    d46 = sum(1 for x, y in zip(outs[0], outs[1]) if x != y) + abs(len(outs[0]) - len(outs[1]))
    log("determinism %-20s %5d histories under PYTHONHASHSEED 0 and 98765: %d differing" % ("C46", len(outs[0]), d46))
    bad += d46
    return 1 if bad else 0


def seeded(only=()):
    """only: names (or prefixes) of the changes to run; the results are merged into seeded/RESULTS.json after every change, so that an
    interrupted pass can be resumed with the names that are still missing"""
    root = os.path.join(VERIF, "seeded")
    resfile = os.path.join(root, "RESULTS.json")
    known = {}
    if only and os.path.exists(resfile):
        known = {r["change"]: r for r in json.load(open(resfile))}
    res = []
    for d in sorted(os.listdir(root)) if os.path.isdir(root) else []:
        meta = os.path.join(root, d, "meta.json")
        if not os.path.exists(meta):
            continue
        if only and not any(d == o or d.startswith(o + "-") for o in only):
            continue
        m = json.load(open(meta))
        pid = m["property"]
        t0 = time.time()
        p = subprocess.run([os.path.join(VERIF, "bin", "try-seeded"), os.path.join(root, d), pid] + m.get("check_args", []), stdout=subprocess.PIPE, stderr=subprocess.STDOUT, text=True, errors="replace")
        viol = [l for l in p.stdout.splitlines() if l.startswith("VIOLATION")]
        cls = sorted({l.split("class=")[1].split()[0] for l in p.stdout.splitlines() if "class=" in l})
        ok = p.returncode == 1 and bool(viol)
        res.append((d, pid, ok, cls, time.time() - t0))
        log("seeded %-40s %s: %s %s (%.0fs)" % (d, pid, "DETECTED" if ok else "MISSED (exit %d)" % p.returncode, cls, time.time() - t0))
        known[d] = {"change": d, "property": pid, "detected": ok, "classes": cls, "seconds": round(time.time() - t0)}
        json.dump([known[k] for k in sorted(known)], open(resfile, "w"), indent=1)
    missed = [r for r in res if not r[2]]
    log("seeded: %d changes, %d detected, %d missed" % (len(res), len(res) - len(missed), len(missed)))
    return 1 if missed else 0


if __name__ == "__main__":
    what = sys.argv[1] if len(sys.argv) > 1 else "determinism"
    if what == "determinism":
        sys.exit(determinism(int(sys.argv[2]) if len(sys.argv) > 2 else 2000))
    if what == "seeded":
        sys.exit(seeded(tuple(sys.argv[2:])))
    print(__doc__); sys.exit(2)
