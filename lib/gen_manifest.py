#!/usr/bin/env python3
"""Regenerates /verif/MANIFEST.json from the table below (single source of truth).

usage: python3 lib/gen_manifest.py        (writes MANIFEST.json, validates against the schema if jsonschema is importable)
"""
import json, os, sys
sys.path.insert(0, os.path.dirname(__file__))
from na_reasons import NA

ROOT = os.path.dirname(os.path.dirname(os.path.abspath(__file__)))

# property -> description of the registered check. 'ready' False keeps the property under
# not_applicable with an explicit "not built yet" reason, so the manifest is valid at all times.
CHECKS = {
 "C29": dict(ready=True, level="exploration", engine="vsim-static",
   technique="deterministic simulation: seeded serialising scheduler over the real ThreadPool.cxx (pthread interposition), history oracle + reference pool, ASan/UBSan; second variant: happens-before race detection over compiler-instrumented accesses (own __tsan_* runtime fed by the simulated synchronisation)",
   text="Seeded schedule exploration of the real ThreadPool (1..4 workers, 0..4 tasks per client, 1..3 clients in quick; up to 16 workers and thousands of tasks in thorough): every interleaving decision, the waiter chosen by notify_one and spurious wake-ups come from one PRNG; exactly-once, wait()-completeness, destructor-drain, future-content and bounded-liveness invariants are evaluated on the sequence-numbered event history; tasks submitted with arguments must run with the values they were submitted with; rare plan shapes: floods of more than 1024 tasks pending behind tasks that wait for the producer, pools of 33..70 workers. A quarter of the runs use a build whose every memory access (compiler instrumentation) is checked for a happens-before order against the simulated locks. Sampling, not proof.",
   note="Trusted: the simulator's model of pthread mutex/condvar/create/join semantics (POSIX, incl. spurious wake-ups and arbitrary notify_one target); libstdc++ std::thread/condition_variable/future run for real. Scheduling points exist only at intercepted calls.",
   design="§3 C29"),
 "C30": dict(ready=True, level="exploration", engine="vsim-static",
   technique="deterministic simulation: seeded scheduler + simulated process table/pipes/SIGCHLD delivery/pid recycling/allocator lock under the real ProcessManager/SignalManager (link-time --wrap, objcopy-redirected operator new/delete), verdict oracle per command, ASan/UBSan, zero/pattern auto-var-init builds",
   text="Seeded exploration of the relative order of child exit, SIGCHLD delivery (any eligible thread), handler execution and waitpid for 1..4 (quick) / 1..16 (thorough) concurrent managers running commands that exit 0, exit k, die by a signal or fail to exec; execute()'s outcome is compared to the planned fate for every command, plus reaping/descriptor conservation, deadlock (mutexes and the allocator lock re-entered by a signal handler) and memory-error detection; pids are recycled across the commands of a history in a third of the runs; children can be stopped and continued (job control); in a fifth of the runs the simulated process starts with SIGCHLD ignored (a child that terminates while it is ignored leaves nothing for waitpid); the child side of an exec failure is executed for real in a forked copy of the harness. One genuine defect is recorded, not repaired (known_findings.json: the SIGCHLD handler allocates memory).",
   note="Trusted: the simulated kernel (fork/waitpid/pipe/signal semantics modelled on Linux); the child side of createProcess is a state machine, not executed code. Uninitialised automatic variables are made deterministic with -ftrivial-auto-var-init in two adversarial flavours.",
   design="§3 C30"),
 "C52": dict(ready=True, level="exploration", engine="vsim-static",
   technique="deterministic simulation: real tfel-check sources (TFELCheck::execute, TestLauncher, PCLogger, ThreadPool, ProcessManager) under the seeded scheduler and simulated process table; verdict/log-block oracle against a sequential reference; happens-before race detection (annotation hook, and a variant with compiler-instrumented accesses and interposed ostream insertions)",
   text="Seeded schedule exploration of the real tfel-check driver code on generated sets of .check files, -j 1..16: exit status must equal the plan-derived verdict and tfel-check.log must contain each check's block exactly once and uninterleaved; a third of the plans have per-directory tfel-check.config files, settings come from the command line.",
   note="Trusted: simulated kernel as for C30; child commands are simulated fates, not real programs.",
   design="§3 C52"),
 "C46": dict(ready=True, level="exploration", engine="procsim",
   technique="deterministic simulation of processes: real forked processes running MFrontLock.cxx from the tree (lock driver and the real mfront binary), every sem_* call and exit forwarded to a seeded simulator that owns the named semaphore objects, the clock of timed waits and the schedule; faults: kill at any request, EINTR or SIGTERM on a blocked wait, failing sem_open, failing invocations; holder-count invariant and every access of the real mfront to src/targets.lst checked against the lock",
   text="Seeded exploration of histories of 2..8 mfront-like runs (sequential then concurrent, made from one or two working directories, with kills at arbitrary points; named semaphores are modelled per name, POSIX shared-memory objects are private to one history): at every step the number of processes inside a lock-protected section must be <= the initial value of the semaphore (1).",
   note="Trusted: the simulated named semaphore (POSIX semantics, persistent across process exits) and the forwarding shim.",
   design="§3 C46"),
 "C36": dict(ready=True, level="exploration", engine="preload",
   technique="deterministic simulation of the environment: real mfront under an LD_PRELOAD simulator (seeded clock with jumps, pid, readdir order, heap layout, environ order) across run histories; byte-identity oracle",
   text="For sampled (input, interface) pairs the generated files must be byte-identical across seeded perturbations of every nondeterminism source mfront can observe and across run histories (fresh, repeated, after other inputs, after the same input with another interface, last of three inputs of one mfront invocation, after an input of a directory holding a name clash, with a keyword option on the command line, under seeded values of the ambient environment variables); four /verif-owned inputs with shapes the repository lacks (arrays of variables with bounds on single elements, one / two user defined tangent operators) are always in the sample, each generated after all the others in one invocation; a repeated generation must leave the whole directory unchanged.",
   note="Trusted: the list of intercepted sources is complete for what mfront reads (checked with strace/ltrace during design).",
   design="§3 C36"),
 "C47": dict(ready=True, level="fault_enumeration", engine="preload",
   technique="crash-point enumeration: real mfront under an LD_PRELOAD I/O layer, kill/ENOSPC injected at every I/O event of a chosen run inside seeded histories; union-model and crash-recovery oracle on src/targets.lst",
   text="Fault-free histories are compared with a set-union reference model and write/read idempotence; for a crashing run every I/O event index x {kill before, kill after, torn write} is enumerated, and the following successful run must either report the damaged registry or keep every library registered before the crash. Corpus: material properties (c, cxx, octave, excel), behaviours (one with @MaterialLaw dependencies) and models; libraries, headers and specific targets are part of the union model; runs without interface, runs with a rejected second input and runs that define macros (-D); half of the runs that follow a crash are made with the warnings switched off; an in-memory tier checks write/read identity and merge inclusion on seeded descriptions.",
   note="Kill model (process death), not power loss: data for which write() returned is durable. Trusted: the small registry parser in the driver.",
   design="§3 C47"),
 "C40": dict(ready=True, level="fault_enumeration", engine="callback-fault",
   technique="fault enumeration at the behaviour-protocol seam: mock behaviour with a fault plan through the real Integrate.hxx / strain-measure wrappers, plus generated behaviours calling a fault-plan provider; bitwise snapshot oracle on s1",
   text="Every (stage x failure mode x request class x hypothesis x strain measure x tangent flavour, valid and invalid selectors) combination is enumerated for the mock tier; the generated tier calls four /verif-owned behaviours and one model (@DSL Model, generic interface: exceptions before / between / after its outputs, input outside its physical bounds) produced by the freshly built mfront; after a call returning -1 the caller's s1 thermodynamic forces, internal state variables and energies must be bitwise unchanged.",
   note="Trusted: the mock implements the interface the templates require; generated-tier behaviours are produced by the freshly built mfront.",
   design="§3 C40"),
 "C50": dict(ready=True, level="fault_enumeration", engine="preload",
   technique="fault injection at the behaviour seam of the real mtest binary (plan keyed by behaviour-call index) on .mtest and .ptest inputs, refinement oracle against a direct fault-free run over the accepted steps, reference model of the sub-stepping loop",
   text="Failures, exceptions and time-step reductions are injected at chosen behaviour calls (incl. nested); the result file must agree, at every accepted time, with a fault-free run performed directly with the accepted steps, and the attempts logged by mtest must follow a reference model of the sub-stepping loop (time bookkeeping, per-interval rejection budget). A third of the plans have a varying temperature and a thermal strain computed by MTest. A sixth of the plans drive PipeTest (several integration points, mandrel, a failure criterion with the StopComputation policy registered by a preloaded plugin; a quarter of them on times that are no dyadic numbers).",
   note="Comparison within 100x the convergence criteria in general, bitwise on dyadic time grids (strict mode).",
   design="§3 C50"),
 "C08": dict(ready=True, level="fault_enumeration", engine="callback-fault",
   technique="fault enumeration at the residual-callback seam of the real solver templates (failure/NaN/inf at chosen evaluations), invariant over the recorded evaluation history, UBSan",
   text="All subsets of <=3 faulty evaluations among the first iterMax+2 are enumerated per solver, size and system family; success must imply a fault-free, finite, criterion-meeting last evaluation at the returned unknowns; iter <= iterMax always (also for a second resolution on the same object, and on Rosenbrock's valley for every budget 1..60); after the last fault affine systems (four magnitudes, equations in every order) converge. The Newton-Raphson solver is enumerated with its three kinds of workspace (default, views on a caller's buffer, heap vector / matrix), the last two also for N = 5 and 7.",
   note="Only the fault clauses of C08 are decided; 'Newton converges inside its basin' is covered only as bounded liveness after faults stop on affine systems.",
   design="§3 C08"),
 "C09": dict(ready=True, level="fault_enumeration", engine="callback-fault",
   technique="fault enumeration at the function/criterion callback seam of the real scalarNewtonRaphson (NaN/inf values, zero/NaN derivatives at chosen evaluations), invariant over the recorded call history",
   text="Faults (NaN of both signs, infinities, vanishing derivatives) are enumerated over evaluation indices for a family of scalar functions with and without valid brackets, four initial guesses (one of them the exact root), every budget incl. negative ones; convergence claims, iteration budget and bracket confinement are checked on the call history.",
   note="Only the fault clauses of C09 are decided.",
   design="§3 C09"),
}

def main():
    checks, na = [], []
    props = [json.loads(l)["id"] for l in open(os.path.join(ROOT, "properties.jsonl"))]
    for pid in props:
        c = CHECKS.get(pid)
        if c and c["ready"]:
            checks.append({
                "property_id": pid,
                "quick_cmd": f"bin/check {pid} --tier quick",
                "thorough_cmd": f"bin/check {pid} --tier thorough",
                "evidence_file": f"/verif/evidence/{pid}.json",
                "replay_cmd_template": f"bin/check {pid} --replay {{path}}",
                "engine": c["engine"],
                "level_claimed": {"category": c["level"], "text": c["text"], "design_ref": c["design"]},
                "level_note": c["note"],
                "technique": c["technique"],
            })
        elif c:
            na.append({"property_id": pid, "reason": "claimed in DESIGN.md (" + c["design"] + ") but its check is not built yet; not claimed until it is"})
        else:
            na.append({"property_id": pid, "reason": NA[pid]})
    m = {
        "version": 1,
        "setup_cmd": "bin/setup",
        "hooks": {
            "guard": "TFEL_VERIF",
            "enable": "checks C29, C30 and C52 compile the anchored sources of /repo with -DTFEL_VERIF (add-only annotation TFEL_VERIF_SHARED_ACCESS feeding the simulator's happens-before race check); every other seam is symbol interposition (pthread_*, sem_*), link-time --wrap of process syscalls, LD_PRELOAD on real binaries, template/functor parameters and /verif-owned .mfront behaviours",
            "baseline_off_cmd": "bin/baseline-off",
            "source_commits": ["9a9bee90a"],
            "add_only": True,
        },
        "engines": [
            {"name": "vsim-static", "path": "sim/", "serves_properties": ["C29", "C30", "C52"],
             "kind_free_text": "in-process deterministic simulator: real threads parked one at a time, simulated mutex/condvar/thread, simulated process table, pipes and signals; seeded PRNG decides every choice; replay files, ddmin minimiser, determinism gates"},
            {"name": "procsim", "path": "harness/C46/", "serves_properties": ["C46"],
             "kind_free_text": "process-level simulator: real forked processes, semaphore calls forwarded to a seeded scheduler owning the named semaphore"},
            {"name": "preload", "path": "preload/", "serves_properties": ["C36", "C47", "C50"],
             "kind_free_text": "LD_PRELOAD simulator for unmodified real binaries: I/O event numbering with crash/error injection, simulated clock/pid/readdir/heap/environ, fault-plan provider for test behaviours"},
            {"name": "callback-fault", "path": "harness/", "serves_properties": ["C08", "C09", "C40"],
             "kind_free_text": "fault-plan enumeration at template/functor callback seams of header-only code"},
        ],
        "checks": checks,
        "not_applicable": na,
        "notes": "Technique family: deterministic simulation with fault injection. See DESIGN.md. known_findings.json lists genuine defects (fixed or recorded).",
    }
    out = os.path.join(ROOT, "MANIFEST.json")
    json.dump(m, open(out, "w"), indent=1)
    try:
        import jsonschema
        jsonschema.validate(m, json.load(open("/root/.vp/MANIFEST.schema.json")))
        print("MANIFEST.json valid;", len(checks), "checks,", len(na), "not_applicable")
    except ImportError:
        print("MANIFEST.json written (jsonschema not importable, not validated);", len(checks), "checks")

if __name__ == "__main__":
    main()
