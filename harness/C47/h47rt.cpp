// C47 (in-memory tier) — "writing then re-reading the registry is the identity" and "merging keeps everything both operands record".
// Real code: TargetsDescription / LibraryDescription / SpecificTargetDescription writers, readers and merge functions of the freshly built
// libTFELMFront (mfront/src/TargetsDescription.cxx, LibraryDescription.cxx, SpecificTargetDescription.cxx), the CxxTokenizer.
// The driver only builds descriptions (every member of every structure is populated, with the kinds of strings real runs register:
// file names, make variables, shell substitutions, commands with quoted arguments) from one seeded generator.
#include <algorithm>
#include <cstdint>
#include <cstdio>
#include <cstdlib>
#include <cstring>
#include <sstream>
#include <string>
#include <vector>
#include "TFEL/Utilities/CxxTokenizer.hxx"
#include "MFront/TargetsDescription.hxx"

using namespace mfront;

struct Rng { uint64_t s; explicit Rng(uint64_t x) : s(x * 0x9E3779B97F4A7C15ull + 77) {} uint64_t next() { uint64_t z = (s += 0x9E3779B97F4A7C15ull); z = (z ^ (z >> 30)) * 0xBF58476D1CE4E5B9ull; z = (z ^ (z >> 27)) * 0x94D049BB133111EBull; return z ^ (z >> 31); } long range(long a, long b) { return a + long(next() % uint64_t(b - a + 1)); } };

static const char* POOL[] = {"Norton.cxx", "Norton-generic.cxx", "$(shell tfel-config --cppflags --compiler-flags)", "$(shell tfel-config --include-path)", "m", "-L../src/", "MFrontMaterialLaw",
                             "@cd ../octave/ && CXXFLAGS=\"$(CXXFLAGS) -std=c++20\" mkoctfile $(INCLUDES) -L../src/ $(shell tfel-config --includes) YoungModulus.cpp",
                             "../octave/YoungModulus.cpp", "../octave/YoungModulus.oct", "path with spaces/file name.cxx", "a,b;c", "echo \"quoted 'single' inside\"", "{braces}", "Elasticity_Tridimensional", "TFEL/Material/Norton.hxx", "-Wl,-rpath,'$$ORIGIN'", "x"};
static std::vector<std::string> strs(Rng& r, int maxn, int tag) {
  std::vector<std::string> v; int n = int(r.range(0, maxn));
  for (int i = 0; i < n; ++i) { std::string s = POOL[r.range(0, long(sizeof POOL / sizeof POOL[0]) - 1)]; if (r.range(0, 2) == 0) s += "#" + std::to_string(tag) + "." + std::to_string(i); if (std::find(v.begin(), v.end(), s) == v.end()) v.push_back(s); }
  return v;
}
static TargetsDescription gen(Rng& r, int salt) {
  TargetsDescription t;
  const int nl = int(r.range(0, 3));
  for (int i = 0; i < nl; ++i) {
    const std::string name = std::string(i == 0 ? "Behaviour" : i == 1 ? "MFrontMaterialLaw" : "OctaveLaw") + (r.range(0, 3) == 0 ? std::to_string(salt) : "");
    auto& l = t.getLibrary(name, "lib", i == 2 ? "oct" : "so", i == 2 ? LibraryDescription::MODULE : LibraryDescription::SHARED_LIBRARY);   // prefix, suffix and type go with the name
    // members are appended to what getLibrary puts in a new description (its default flags), as the interfaces of mfront do
    auto add = [](std::vector<std::string>& v, const std::vector<std::string>& w) { for (auto& e : w) if (std::find(v.begin(), v.end(), e) == v.end()) v.push_back(e); };
    (void)strs(r, 2, 1);   // CompiledTargetDescriptionBase::mfront_sources is declared but never set, read nor written anywhere in the tree: not part of the recorded description
    add(l.sources, strs(r, 4, 2)); add(l.cppflags, strs(r, 2, 3)); add(l.include_directories, strs(r, 2, 4)); add(l.link_directories, strs(r, 2, 5));
    add(l.link_libraries, strs(r, 3, 6)); add(l.deps, strs(r, 2, 7)); add(l.ldflags, strs(r, 2, 8)); add(l.epts, strs(r, 4, 9)); if (r.range(0, 2) == 0) l.install_path = "/opt/some where";
  }
  t.headers = strs(r, 4, 10);
  const int nt = int(r.range(0, 3));
  for (int i = 0; i < nt; ++i) {
    auto& st = t.specific_targets["../octave/T" + std::to_string(r.range(0, 3)) + ".oct"];
    st.sources = strs(r, 2, 11); st.deps = strs(r, 2, 12); st.libraries = strs(r, 2, 13); st.cmds = strs(r, 2, 14);
  }
  if (r.range(0, 1)) t.specific_targets["all"].deps = strs(r, 3, 15);
  return t;
}
static std::string js(const std::string& s) { std::string o; for (unsigned char c : s) { if (c == '"' || c == '\\') { o += '\\'; o += char(c); } else if (c < 0x20 || c >= 0x7f) o += '?'; else o += char(c); } return o; }
static std::string vs(const std::vector<std::string>& v) { std::string s = "["; for (auto& e : v) s += "'" + e + "' "; return s + "]"; }
static bool same(const std::vector<std::string>& a, const std::vector<std::string>& b, const std::string& what, std::string& d) { if (a == b) return true; if (d.empty()) d = what + ": " + vs(a) + " became " + vs(b); return false; }
static std::string diff(const TargetsDescription& a, const TargetsDescription& b) {
  std::string d;
  if (a.libraries.size() != b.libraries.size()) return "number of libraries: " + std::to_string(a.libraries.size()) + " became " + std::to_string(b.libraries.size());
  for (size_t i = 0; i < a.libraries.size(); ++i) {
    const auto &x = a.libraries[i], &y = b.libraries[i]; const std::string n = "library " + x.name + ".";
    if (x.name != y.name || x.prefix != y.prefix || x.suffix != y.suffix || x.type != y.type) return n + "name/prefix/suffix/type changed";
    if (x.install_path != y.install_path) return n + "install_path: '" + x.install_path + "' became '" + y.install_path + "'";
    same(x.sources, y.sources, n + "sources", d); same(x.cppflags, y.cppflags, n + "cppflags", d);
    same(x.include_directories, y.include_directories, n + "include_directories", d); same(x.link_directories, y.link_directories, n + "link_directories", d);
    same(x.link_libraries, y.link_libraries, n + "link_libraries", d); same(x.deps, y.deps, n + "deps", d); same(x.ldflags, y.ldflags, n + "ldflags", d); same(x.epts, y.epts, n + "epts", d);
  }
  same(a.headers, b.headers, "headers", d);
  if (a.specific_targets.size() != b.specific_targets.size() && d.empty()) d = "number of specific targets: " + std::to_string(a.specific_targets.size()) + " became " + std::to_string(b.specific_targets.size());
  for (auto& kv : a.specific_targets) {
    auto it = b.specific_targets.find(kv.first); if (it == b.specific_targets.end()) { if (d.empty()) d = "specific target " + kv.first + " lost"; continue; }
    const std::string n = "target " + kv.first + ".";
    same(kv.second.sources, it->second.sources, n + "sources", d); same(kv.second.deps, it->second.deps, n + "dependencies", d); same(kv.second.libraries, it->second.libraries, n + "libraries", d); same(kv.second.cmds, it->second.cmds, n + "commands", d);
  }
  return d;
}
static std::string to_text(const TargetsDescription& t) { std::ostringstream os; os << t; return os.str(); }
#include <memory>
static std::unique_ptr<TargetsDescription> from_text(const std::string& txt, std::string& err) {   // TargetsDescription is not assignable
  try { tfel::utilities::CxxTokenizer tk; tk.parseString(txt); auto c = tk.begin(); return std::make_unique<TargetsDescription>(read<TargetsDescription>(c, tk.end())); }
  catch (std::exception& e) { err = e.what(); return nullptr; }
}
static bool includes(const std::vector<std::string>& big, const std::vector<std::string>& small) { for (auto& s : small) if (std::find(big.begin(), big.end(), s) == big.end()) return false; return true; }

int main(int argc, char** argv) {
  uint64_t seed = 1; long count = 2000;
  for (int i = 1; i < argc; ++i) { if (!strcmp(argv[i], "--seed") && i + 1 < argc) seed = strtoull(argv[++i], 0, 10); else if (!strcmp(argv[i], "--count") && i + 1 < argc) count = atol(argv[++i]); }
  long cases = 0, viol = 0, nontrivial = 0, merges = 0;
  auto report = [&](const char* cls, long k, const std::string& d, const std::string& txt) { ++viol; if (viol <= 20) printf("{\"cls\":\"%s\",\"case\":%ld,\"seed\":%llu,\"detail\":\"%s\",\"registry\":\"%s\"}\n", cls, k, (unsigned long long)seed, js(d).c_str(), js(txt.substr(0, 600)).c_str()); };
  for (long k = 0; k < count; ++k) {
    Rng r(seed * 1000003ull + uint64_t(k));
    TargetsDescription a = gen(r, int(k % 7));
    ++cases; if (!a.libraries.empty() || !a.specific_targets.empty()) ++nontrivial;
    const std::string t1 = to_text(a);
    std::string err;
    auto pb = from_text(t1, err);
    if (!pb) { report("registry-written-cannot-be-read-back", k, err, t1); continue; }
    const TargetsDescription& b = *pb;
    const std::string d = diff(a, b);
    if (!d.empty()) { report("write-read-not-identity", k, d, t1); continue; }
    const std::string t2 = to_text(b);
    if (t2 != t1) { report("rewrite-not-idempotent", k, "writing the description read back gives other bytes", t2); continue; }
    // merge: everything both operands record at the level of libraries, headers and the target `all` is in the result
    TargetsDescription c = gen(r, int((k + 3) % 7)); ++merges;
    for (int flag = 0; flag < 2; ++flag) {
      TargetsDescription m = a;
      try { mergeTargetsDescription(m, c, flag != 0); } catch (std::exception& e) { report("merge-threw", k, e.what(), to_text(c)); break; }
      std::string md;
      for (const TargetsDescription* op : {&a, &c}) {
        for (auto& l : op->libraries) {
          if (!describes(m, l.name)) { md = "library " + l.name + " lost by the merge"; break; }
          const auto& lm = const_cast<const TargetsDescription&>(m).getLibrary(l.name);
          if (!includes(lm.sources, l.sources) || !includes(lm.epts, l.epts) || !includes(lm.link_libraries, l.link_libraries) || !includes(lm.deps, l.deps) || !includes(lm.cppflags, l.cppflags) || !includes(lm.include_directories, l.include_directories) || !includes(lm.link_directories, l.link_directories) || !includes(lm.ldflags, l.ldflags))
            { md = "library " + l.name + ": a source, entry point, flag or dependency of an operand is missing after the merge"; break; }
        }
        if (md.empty() && !includes(m.headers, op->headers)) md = "a header of an operand is missing after the merge";
        if (md.empty()) for (auto& kv : op->specific_targets) { if (!m.specific_targets.count(kv.first)) { md = "specific target " + kv.first + " lost by the merge"; break; } if (kv.first == "all" && !includes(m.specific_targets.at("all").deps, kv.second.deps)) { md = "dependencies of the target `all` lost by the merge"; break; } }
        if (!md.empty()) break;
      }
      if (!md.empty()) { report("merge-is-not-the-union", k, md + " (overwrite flag " + std::to_string(flag) + ")", to_text(m)); break; }
    }
  }
  printf("{\"summary\":true,\"cases\":%ld,\"nontrivial\":%ld,\"merges\":%ld,\"violations\":%ld}\n", cases, nontrivial, merges, viol);
  return 0;
}
