// C50 (pipe tier) — a failure criterion for PipeTest, registered in the mtest process through LD_PRELOAD (the factory of the repository has
// no built-in criterion: users register theirs from C++ or python).  "VerifMaximumInnerDisplacement" {threshold: x} is met when the radial
// displacement of the inner surface at the end of the step exceeds x in absolute value.
#include <cmath>
#include <memory>
#include <string>
#include "TFEL/Utilities/Data.hxx"
#include "MTest/StudyCurrentState.hxx"
#include "MTest/PipeFailureCriterion.hxx"
#include "MTest/PipeFailureCriteriaFactory.hxx"

namespace {
struct MaxInnerDisplacement final : mtest::PipeFailureCriterion {
  double threshold = 0;
  std::string getName() const override { return "VerifMaximumInnerDisplacement"; }
  bool execute(const mtest::StudyCurrentState& s, const mtest::real, const mtest::real) const override { return !s.u1.empty() && std::abs(s.u1[0]) > threshold; }
};
__attribute__((constructor)) void register_criterion() {
  mtest::PipeFailureCriteriaFactory::getFactory().addGenerator("VerifMaximumInnerDisplacement", [](const std::string&, const tfel::utilities::DataMap& m) {
    auto c = std::make_unique<MaxInnerDisplacement>();
    auto p = m.find("threshold");
    if (p != m.end()) c->threshold = p->second.is<double>() ? p->second.get<double>() : double(p->second.get<int>());
    return std::unique_ptr<mtest::PipeFailureCriterion>(std::move(c));
  });
}
}  // namespace
