// C09 (fault clauses) — scalar Newton-bisection root finder is sound and bracket-confined.
// Real code: include/TFEL/Math/NonLinearSolvers/{ScalarNewtonRaphson,BissectionAlgorithmBase}.ixx from /repo.
// Stub: the function (value, derivative) and the stopping criterion, both logging; the function follows a fault plan:
// at chosen evaluations its value is NaN/+inf/-inf or its derivative 0/NaN/+inf, and regions of the domain return NaN.
#include <cmath>
#include <cstdio>
#include <cstdlib>
#include <cstring>
#include <limits>
#include <string>
#include <tuple>
#include <vector>
#include "TFEL/Config/TFELConfig.hxx"
#include "TFEL/Math/ScalarNewtonRaphson.hxx"

enum FaultKind { FK_NONE = 0, FK_NAN_VALUE, FK_PINF_VALUE, FK_NINF_VALUE, FK_ZERO_DERIVATIVE, FK_NAN_DERIVATIVE, FK_INF_DERIVATIVE, FK_NEG_NAN_VALUE, FK_NEG_NAN_DERIVATIVE, FK_COUNT };
static const char* fk_name[] = {"none", "NaN-value", "+inf-value", "-inf-value", "zero-derivative", "NaN-derivative", "+inf-derivative", "negative-NaN-value", "negative-NaN-derivative"};   // the NaN an x86 FPU produces at run time (0/0, sqrt(-1)) has its sign bit set
enum { NFUN = 8, NBRACKET = 6, NX0 = 4, NCRIT = 2, NREGION = 3 };
static const char* fun_name[] = {"x-1", "x^3-2x-5", "atan(x)", "exp(x)-2", "x^2-4", "sign(x)sqrt|x|", "1e-310*(x-1) on a bracket of width 3e9", "tanh(1e3(x-0.1))+1e-16 (root within one ulp of the upper bound 0.1)"};
// the last two exercise the bracket arithmetic itself: a secant slope that overflows (subnormal values, huge width) and a secant root that
// rounds just above the upper bound
static const char* bracket_name[] = {"none", "valid", "valid-reversed", "invalid-same-sign", "one-sided", "valid-whole-range[-DBL_MAX,DBL_MAX]"};
static const char* region_name[] = {"none", "NaN-right-of-root", "NaN-left-of-bracket-middle"};

struct Case { int fun, bracket, x0, crit, im, region, kind; unsigned mask; };
struct FCall { double x, v, d; bool faulted; };
struct CCall { double fv, dx, x; long i; bool result; };
struct Log { std::vector<FCall> f; std::vector<CCall> c; };

static double root_of(int fun) { static const double r[] = {1.0, 2.0945514815423265, 0.0, 0.6931471805599453, 2.0, 0.0, 1.0, 0.1}; return r[fun]; }
static void eval(int fun, double x, double& v, double& d) {
  switch (fun) {
    case 0: v = x - 1; d = 1; break;
    case 1: v = x * x * x - 2 * x - 5; d = 3 * x * x - 2; break;
    case 2: v = std::atan(x); d = 1 / (1 + x * x); break;
    case 3: v = std::exp(x) - 2; d = std::exp(x); break;
    case 4: v = x * x - 4; d = 2 * x; break;
    case 5: v = (x < 0 ? -1 : 1) * std::sqrt(std::fabs(x)); d = 1 / (2 * std::sqrt(std::fabs(x))); break;
    case 6: v = 1e-310 * (x - 1); d = 1e-310; break;
    default: { const double t = std::tanh(1e3 * (x - 0.1)); v = t + 1e-16; d = 1e3 * (1 - t * t); } break;
  }
}
static void bracket_of(int fun, int b, double& lo, double& hi) {
  // ends chosen so that the function is finite, non-zero and of opposite signs for the valid brackets
  static const double L[] = {-3, 1, -5, -2, 0.5, -4, -1e9, -2}, H[] = {6, 4, 3, 3, 5, 9, 2e9, 0.1};
  const double nan = std::numeric_limits<double>::quiet_NaN();
  switch (b) {
    case 1: lo = L[fun]; hi = H[fun]; break;
    case 2: lo = H[fun]; hi = L[fun]; break;
    case 3: lo = root_of(fun) + 0.5; hi = root_of(fun) + 3; break;   // same sign (right of the root; all functions increase there)
    case 4: lo = L[fun]; hi = nan; break;
    case 5: lo = -std::numeric_limits<double>::max(); hi = std::numeric_limits<double>::max(); break;   // "unbounded" passed as the widest finite bracket
    default: lo = nan; hi = nan;
  }
}
static double x0_of(int fun, int k) {
  static const double inside[] = {2.5, 3.0, 2.0, 1.5, 0.0 + 1e-300, 4.0, 2.5, -1.0};
  static const double outside[] = {20, -6, 8, -7, -9, 30, 3e9, 0.5};
  if (k == 3) return root_of(fun);   // the initial guess is the root itself (exactly, where it is representable): the criterion still has the last word
  if (k == 0) return (fun == 4) ? 1.0 : inside[fun];
  if (k == 1) return outside[fun];
  return (fun == 4) ? 0.0 : root_of(fun) + 1e-3;   // flat derivative at the start for x^2-4, close to the root otherwise
}

struct Runaway {};   // thrown by the function when the solver has called it far more often than any budget allows (endless loop)
struct Verdict { std::string cls = "ok"; std::string detail; bool converged = false; long iters = 0; size_t fcalls = 0; bool fault_hit = false; double x = 0; };

static Verdict run(const Case& cs) {
  Verdict v; Log log;
  const double nan = std::numeric_limits<double>::quiet_NaN(), inf = std::numeric_limits<double>::infinity();
  double lo, hi; bracket_of(cs.fun, cs.bracket, lo, hi);
  const double mid = (std::isfinite(lo) && std::isfinite(hi)) ? 0.5 * (lo + hi) : 0;
  auto f = [&](const double x) {
    double val, der; eval(cs.fun, x, val, der);
    const size_t k = log.f.size(); bool faulted = false;
    if (k > size_t(3 + 2 * std::max(cs.im, 0)) + 16) throw Runaway{};
    if (cs.region == 1 && x > root_of(cs.fun) + 0.75) { val = nan; faulted = true; }
    if (cs.region == 2 && x < mid - 0.25 && std::isfinite(mid)) { val = nan; faulted = true; }
    if (k < 32 && ((cs.mask >> k) & 1u)) {
      faulted = true;
      switch (cs.kind) {
        case FK_NAN_VALUE: val = nan; break; case FK_PINF_VALUE: val = inf; break; case FK_NINF_VALUE: val = -inf; break;
        case FK_ZERO_DERIVATIVE: der = 0; break; case FK_NAN_DERIVATIVE: der = nan; break; case FK_NEG_NAN_VALUE: val = -nan; break; case FK_NEG_NAN_DERIVATIVE: der = -nan; break; default: der = inf; break;
      }
    }
    log.f.push_back({x, val, der, faulted});
    return std::make_tuple(val, der);
  };
  auto c = [&](const double fv, const double dx, const double x, const int i) {
    const bool r = cs.crit == 0 ? std::fabs(fv) < 1e-11 : std::fabs(dx) < 1e-9;
    log.c.push_back({fv, dx, x, long(i), r});
    return r;
  };
  tfel::math::ScalarNewtonRaphsonParameters<double, int> p;
  p.x0 = x0_of(cs.fun, cs.x0); p.im = cs.im; p.xmin0 = lo; p.xmax0 = hi;
  std::tuple<bool, double, int> res{false, 0.0, 0};
  try { res = tfel::math::scalarNewtonRaphson(f, c, p); }
  catch (Runaway&) { v.cls = "too-many-function-calls"; v.detail = "run stopped by the harness after " + std::to_string(log.f.size()) + " evaluations for im=" + std::to_string(cs.im) + " (the iteration budget no longer ends the loop)"; v.fcalls = log.f.size(); for (auto& e : log.f) if (e.faulted) v.fault_hit = true; return v; }
  v.converged = std::get<0>(res); v.x = std::get<1>(res); v.iters = std::get<2>(res); v.fcalls = log.f.size();
  for (auto& e : log.f) if (e.faulted) v.fault_hit = true;
  auto fail = [&v](const char* cl, const std::string& d) { if (v.cls == "ok") { v.cls = cl; v.detail = d; } };
  // B: iteration budget
  const int allowed = std::max(cs.im, 0);   // a negative budget (signed index type, remainder of a shared budget) allows nothing
  if (v.iters > allowed) fail("too-many-iterations", "returned iteration count " + std::to_string(v.iters) + " > allowed " + std::to_string(allowed) + " (im=" + std::to_string(cs.im) + ")");
  if (v.fcalls > size_t(3 + 2 * allowed)) fail("too-many-function-calls", std::to_string(v.fcalls) + " evaluations for im=" + std::to_string(cs.im));
  // A: soundness of a convergence claim
  if (v.converged) {
    if (!std::isfinite(v.x)) fail("converged-non-finite-root", "returned root is not finite");
    if (log.c.empty() || !log.c.back().result) fail("converged-without-criterion", "the last call of the criterion did not return true");
    else {
      const CCall& lc = log.c.back();
      if (memcmp(&lc.x, &v.x, sizeof(double)) != 0) fail("converged-at-other-point", "the criterion accepted x=" + std::to_string(lc.x) + " but " + std::to_string(v.x) + " is returned");
      if (!std::isfinite(lc.fv)) fail("converged-non-finite-value", "the criterion was satisfied with a non-finite function value");
      // the value given to the criterion is one the function returned at that abscissa (an abscissa can be evaluated more than once: the initial
      // guess may coincide with a bound of the bracket, and a fault plan may give the two evaluations different values)
      bool found = false, same = false; double other = 0;
      for (size_t k = log.f.size(); k-- > 0;) if (memcmp(&log.f[k].x, &lc.x, sizeof(double)) == 0) { found = true; if (memcmp(&log.f[k].v, &lc.fv, sizeof(double)) == 0) same = true; else other = log.f[k].v; }
      if (found && !same) fail("converged-on-stale-value", "criterion received " + std::to_string(lc.fv) + " but f(x) was " + std::to_string(other));
      if (!found) fail("converged-at-unevaluated-point", "the function was never evaluated at the returned root");
    }
  }
  // C: bracket confinement (valid sign-changing bracket whose ends were evaluated without fault)
  if ((cs.bracket == 1 || cs.bracket == 2 || cs.bracket == 5) && log.f.size() >= 3) {
    const FCall &e1 = log.f[1], &e2 = log.f[2];
    const bool valid = !e1.faulted && !e2.faulted && std::isfinite(e1.v) && std::isfinite(e2.v) && ((e1.v < 0 && e2.v > 0) || (e1.v > 0 && e2.v < 0));
    if (valid) {
      const double a = std::min(lo, hi), b = std::max(lo, hi);
      for (size_t k = 3; k < log.f.size(); ++k)
        if (!(log.f[k].x >= a && log.f[k].x <= b)) { fail("estimate-outside-bracket", "evaluation #" + std::to_string(k) + " at x=" + std::to_string(log.f[k].x) + " is outside [" + std::to_string(a) + "," + std::to_string(b) + "]"); break; }
      // the initial guess itself may lie outside the bracket (it is not a "later estimate"): only roots reached after a step are constrained
      if (v.converged && v.iters > 0 && !(v.x >= a && v.x <= b)) fail("root-outside-bracket", "returned root outside the bracket");
    }
  }
  return v;
}

static void print(const char* cls, const Case& c, const Verdict& v) {
  printf("{\"cls\":\"%s\",\"case\":[%d,%d,%d,%d,%d,%d,%d,%u],\"function\":\"%s\",\"bracket\":\"%s\",\"x0\":%.17g,\"criterion\":\"%s\",\"im\":%d,\"region\":\"%s\",\"fault\":\"%s\",\"faulty_evaluations\":\"",
         cls, c.fun, c.bracket, c.x0, c.crit, c.im, c.region, c.kind, c.mask, fun_name[c.fun], bracket_name[c.bracket], x0_of(c.fun, c.x0), c.crit ? "|dx|<1e-9" : "|f|<1e-11", c.im, region_name[c.region], fk_name[c.kind]);
  bool first = true; for (int k = 0; k < 32; ++k) if ((c.mask >> k) & 1u) { printf("%s%d", first ? "" : ",", k); first = false; }
  printf("\",\"converged\":%d,\"root\":\"%.17g\",\"iterations\":%ld,\"fcalls\":%zu,\"detail\":\"%s\"}\n", int(v.converged), v.x, v.iters, v.fcalls, v.detail.c_str());
}

int main(int argc, char** argv) {
  if (argc >= 10 && !strcmp(argv[1], "--case")) {
    Case c{atoi(argv[2]), atoi(argv[3]), atoi(argv[4]), atoi(argv[5]), atoi(argv[6]), atoi(argv[7]), atoi(argv[8]), unsigned(strtoul(argv[9], 0, 10))};
    Verdict v = run(c); print(v.cls.c_str(), c, v); return 0;
  }
  int tier = 0; for (int i = 1; i < argc; ++i) if (!strcmp(argv[i], "--tier") && i + 1 < argc) tier = atoi(argv[++i]);
  static const int ims_q[] = {-6, -1, 0, 1, 2, 3, 5, 10, 30}, ims_t[] = {-6, -1, 0, 1, 2, 3, 4, 5, 7, 10, 15, 30};
  const int* ims = tier ? ims_t : ims_q; const int nims = tier ? 12 : 9;
  long cases = 0, fault_reached = 0, converged = 0, violations = 0, samples = 0, confined_checked = 0; long by_kind[FK_COUNT] = {0};
  for (int fun = 0; fun < NFUN; ++fun) for (int b = 0; b < NBRACKET; ++b) for (int x0 = 0; x0 < NX0; ++x0) for (int cr = 0; cr < NCRIT; ++cr) for (int ii = 0; ii < nims; ++ii) for (int reg = 0; reg < NREGION; ++reg) {
    const int im = ims[ii], npos = std::min(3 + 2 * std::max(im, 0), tier ? 11 : 8), maxf = tier ? 3 : 2;
    for (unsigned mask = 0; mask < (1u << npos); ++mask) {
      if (__builtin_popcount(mask) > maxf) continue;
      for (int kind = (mask ? 1 : 0); kind < (mask ? int(FK_COUNT) : 1); ++kind) {
        Case c{fun, b, x0, cr, im, reg, kind, mask};
        Verdict v = run(c);
        ++cases; if (v.fault_hit) { ++fault_reached; by_kind[kind]++; } if (v.converged) ++converged;
        if (b == 1 || b == 2 || b == 5) ++confined_checked;
        if (v.cls != "ok") { ++violations; if (violations <= 400) print(v.cls.c_str(), c, v); }
        else if ((cases % 50021) == 0 && samples < 6) { ++samples; print("sample", c, v); }
      }
    }
  }
  printf("{\"summary\":true,\"cases\":%ld,\"fault_reached\":%ld,\"converged\":%ld,\"violations\":%ld,\"cases_with_valid_bracket_kind\":%ld,\"fault_kinds_reached\":{", cases, fault_reached, converged, violations, confined_checked);
  for (int k = 1; k < FK_COUNT; ++k) printf("%s\"%s\":%ld", k > 1 ? "," : "", fk_name[k], by_kind[k]);
  printf("}}\n");
  return 0;
}
