// C40 (mock tier) — a failed behaviour integration leaves the output state untouched.
// Real code: mfront/include/MFront/GenericBehaviour/{Integrate,LogarithmicStrainIntegrate,GreenLagrangeStrainIntegrate,
// StandardFiniteStrainBehaviourIntegrate}.hxx instantiated from /repo.  Stub: the behaviour class (a mock implementing the
// interface those templates require, with a fault plan: at one stage of the call protocol it returns failure, throws a
// std::exception or throws a non-standard exception).
#include <cmath>
#include <cstdio>
#include <cstring>
#include <stdexcept>
#include <string>
#include <utility>
#include <vector>
#include "TFEL/Math/stensor.hxx"
#include "TFEL/Math/tensor.hxx"
#include "TFEL/Math/st2tost2.hxx"
#include "TFEL/Math/t2tost2.hxx"
#include "TFEL/Material/ModellingHypothesis.hxx"
#include "TFEL/Material/MechanicalBehaviourTraits.hxx"
#include "TFEL/Material/FiniteStrainBehaviourTangentOperator.hxx"
#include "MFront/GenericBehaviour/Integrate.hxx"
#include "MFront/GenericBehaviour/LogarithmicStrainIntegrate.hxx"
#include "MFront/GenericBehaviour/GreenLagrangeStrainIntegrate.hxx"
#include "MFront/GenericBehaviour/StandardFiniteStrainBehaviourIntegrate.hxx"

using tfel::material::ModellingHypothesis;
using Hyp = ModellingHypothesis::Hypothesis;

#include "h40.h"


static bool fails_here(int stage) {   // true -> the caller returns its failure value; may throw instead
  if (stage != g_stage) return false;
  g_stage_hits[stage]++;
  if (g_mode == M_THROW_STD) throw std::runtime_error("injected failure");
  if (g_mode == M_THROW_OTHER) throw 42;
  return true;
}

struct MockData {};   // plays the role of <Behaviour>::BehaviourData for the post-processing entry point
template <Hyp H, bool FS>
struct Mock : MockData {
  using BehaviourData = MockData;
  static constexpr unsigned short N = tfel::material::ModellingHypothesisToSpaceDimension<H>::value;
  using real = double; using stress = double; using speed = double; using massdensity = double;
  using SMFlag = std::conditional_t<FS, tfel::material::FiniteStrainBehaviourTangentOperatorBase::Flag, int>;
  static constexpr int STANDARDTANGENTOPERATOR = 0;
  enum SMType { ELASTIC, SECANTOPERATOR, TANGENTOPERATOR, CONSISTENTTANGENTOPERATOR, NOSTIFFNESSREQUESTED };
  enum IntegrationResult { SUCCESS, FAILURE, UNRELIABLE_RESULTS };
  using Tangent = std::conditional_t<FS, tfel::material::FiniteStrainBehaviourTangentOperator<N, double>, tfel::math::st2tost2<N, double>>;
  tfel::math::stensor<N, double> sig; double iv[3]; Tangent Dt; SMFlag flag{};
  explicit Mock(const mfront_gb_BehaviourData& d) {
    for (unsigned short i = 0; i < sig.size(); ++i) sig[i] = d.s0.thermodynamic_forces[i];
    for (int i = 0; i < 3; ++i) iv[i] = d.s0.internal_state_variables[i];
    if constexpr (FS) Dt = tfel::math::t2tost2<N, double>(1.); else Dt = tfel::math::st2tost2<N, double>(1.);
  }
  void setOutOfBoundsPolicy(tfel::material::OutOfBoundsPolicy) {}
  bool initialize() { return !fails_here(ST_INITIALIZE); }
  void checkBounds() { if (g_stage == ST_CHECKBOUNDS) { g_stage_hits[ST_CHECKBOUNDS]++; if (g_mode == M_THROW_OTHER) throw 42; throw std::runtime_error("out of bounds"); } }
  double computeSpeedOfSound(double) { fails_here(ST_SPEED_OF_SOUND); return 1; }
  bool computePredictionOperator(SMFlag f, SMType) { flag = f; return !fails_here(ST_TANGENT); }
  const Tangent& getTangentOperator() const { if (g_stage == ST_TANGENT && g_mode != M_RETURN_FAILURE) fails_here(ST_TANGENT); return Dt; }
  std::pair<bool, double> computeAPrioriTimeStepScalingFactor(double r) { bool f = fails_here(ST_APRIORI); return {!f, g_reduce ? 0.5 : r}; }
  IntegrationResult integrate(SMFlag f, SMType) {
    flag = f;
    for (unsigned short i = 0; i < sig.size(); ++i) sig[i] += 1000 + i;
    for (int i = 0; i < 3; ++i) iv[i] += 0.001 * (i + 1);
    return fails_here(ST_INTEGRATE) ? FAILURE : SUCCESS;
  }
  double getMinimalTimeStepScalingFactor() const { return 0.1; }
  std::pair<bool, double> computeAPosterioriTimeStepScalingFactor(double r) { bool f = fails_here(ST_APOSTERIORI); return {!f, r}; }
  void exportStateData(mfront_gb_State& s) const {
    for (unsigned short i = 0; i < sig.size(); ++i) s.thermodynamic_forces[i] = sig[i];
    for (int i = 0; i < 3; ++i) s.internal_state_variables[i] = iv[i];
    if (g_axial) s.internal_state_variables[1] = -0.75;   // an axial strain the plane-stress wrappers cannot turn into a stretch
  }
  // the other entry points of the generic interface: initialize functions and post-processings
  void updateExternalStateVariables() {}
  void initFn(const double* const v) { fails_here(ST_INITFN); for (unsigned short i = 0; i < sig.size(); ++i) sig[i] = v[0] + i; for (int i = 0; i < 3; ++i) iv[i] = v[1] + i; }
  void postFn(double* const out, const MockData&) { fails_here(ST_POSTFN); out[0] = sig[0]; }
  void computeInternalEnergy(double& e) const { fails_here(ST_INTERNAL_ENERGY); e += 1; }
  void computeDissipatedEnergy(double& e) const { fails_here(ST_DISSIPATED_ENERGY); e += 1; }
};

namespace tfel::material {
template <Hyp H, bool FS> struct MechanicalBehaviourTraits<Mock<H, FS>> {
  static constexpr bool hasConsistentTangentOperator = true, hasPredictionOperator = true, hasComputeInternalEnergy = true, hasComputeDissipatedEnergy = true;
};
}
namespace mfront::gb {
template <Hyp H, bool FS> struct GenericBehaviourTraits<Mock<H, FS>> {
  static constexpr auto hypothesis = H;
  static constexpr bool has_axial_strain_offset = true; static constexpr int axial_strain_offset = 1;
  static constexpr bool has_axial_deformation_gradient_offset = true; static constexpr int axial_deformation_gradient_offset = 1;
};
}



template <Hyp H>
Result run_case(const Case& c) {
  constexpr unsigned short N = tfel::material::ModellingHypothesisToSpaceDimension<H>::value;
  constexpr int SS = tfel::material::ModellingHypothesisToStensorSize<H>::value, TS = tfel::material::ModellingHypothesisToTensorSize<H>::value;
  (void)N;
  g_stage = c.stage; g_mode = c.mode; g_reduce = c.reduce & 1; g_axial = (c.reduce >> 1) & 1;
  double g0[9], g1[9], f0[9], f1[9], iv0[3] = {0.5, 0.01, 0.25}, iv1[3] = {91.5, 0.02, 93.5};
  double K[81]; for (auto& k : K) k = 0;
  double rdt = 1, se0 = 2, se1 = 55.5, de0 = 3, de1 = 66.5, rho = 7800, sos = 0; char msg[512] = {0};
  const bool fs_grad = c.wrapper != 0;
  for (int i = 0; i < 9; ++i) {
    g0[i] = fs_grad ? (i < 3 ? 1.0 + 0.001 * i : 0.0005 * (i - 2)) : 0.0001 * (i + 1);
    g1[i] = fs_grad ? (i < 3 ? 1.01 + 0.002 * i : 0.0007 * (i - 2)) : 0.0002 * (i + 1);
    f0[i] = 10.0 + i; f1[i] = 11.0 * (i + 1) + 0.125;
  }
  K[0] = k0_values[c.k0]; K[1] = c.k1; K[2] = c.k2;
  mfront_gb_BehaviourData d{}; d.error_message = msg; d.dt = 1; d.K = K; d.rdt = &rdt; d.speed_of_sound = &sos;
  d.s0.gradients = g0; d.s1.gradients = g1; d.s0.thermodynamic_forces = f0; d.s1.thermodynamic_forces = f1;
  d.s0.internal_state_variables = iv0; d.s1.internal_state_variables = iv1;
  d.s0.stored_energy = &se0; d.s1.stored_energy = &se1; d.s0.dissipated_energy = &de0; d.s1.dissipated_energy = &de1;
  d.s0.mass_density = &rho; d.s1.mass_density = &rho;
  double f1b[9], iv1b[3], se1b = se1, de1b = de1; memcpy(f1b, f1, sizeof f1); memcpy(iv1b, iv1, sizeof iv1);
  int r = -99;
  const auto pol = tfel::material::None;
  switch (c.wrapper) {
    case 0: r = mfront::gb::integrate<Mock<H, false>>(d, Mock<H, false>::STANDARDTANGENTOPERATOR, pol); break;
    case 1: r = mfront::gb::logarithmic_strain::integrate<Mock<H, false>>(d, pol); break;
    case 2: r = mfront::gb::green_lagrange_strain::integrate<Mock<H, false>>(d, pol); break;
    case 3: r = mfront::gb::finite_strain::integrate<Mock<H, true>>(d, pol); break;
    case 4: { const double vals[2] = {7.5, 0.25}; r = mfront::gb::executeInitializeFunction<Mock<H, false>, &Mock<H, false>::initFn>(d, vals, pol); } break;
    default: { double out[2] = {0, 0}; r = mfront::gb::executePostProcessing<Mock<H, false>, &Mock<H, false>::postFn, true>(out, d, pol); } break;
  }
  Result res{r, true, ""};
  auto diff = [&res](const char* name, const double* a, const double* b, int n) {
    if (memcmp(a, b, sizeof(double) * size_t(n)) != 0) {
      res.untouched = false; char buf[256];
      int k = 0; while (k < n && memcmp(a + k, b + k, sizeof(double)) == 0) ++k;
      snprintf(buf, sizeof buf, "%s[%d]: %.17g -> %.17g; ", name, k, b[k], a[k]); res.what += buf;
    }
  };
  diff("s1.thermodynamic_forces", f1, f1b, (c.wrapper == 0 || c.wrapper >= 4) ? SS : TS);
  diff("s1.internal_state_variables", iv1, iv1b, 3);
  diff("s1.stored_energy", &se1, &se1b, 1);
  diff("s1.dissipated_energy", &de1, &de1b, 1);
  (void)SS; (void)TS;
  return res;
}


// one translation unit per modelling hypothesis (compiled in parallel): -DHYP_INDEX=0..3
#if HYP_INDEX == 0
Result run_case_hyp0(const Case& c) { return run_case<ModellingHypothesis::AXISYMMETRICALGENERALISEDPLANESTRAIN>(c); }
#elif HYP_INDEX == 1
Result run_case_hyp1(const Case& c) { return run_case<ModellingHypothesis::PLANESTRAIN>(c); }
#elif HYP_INDEX == 2
Result run_case_hyp2(const Case& c) { return run_case<ModellingHypothesis::PLANESTRESS>(c); }
#else
Result run_case_hyp3(const Case& c) { return run_case<ModellingHypothesis::TRIDIMENSIONAL>(c); }
#endif
