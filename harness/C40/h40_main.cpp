// C40 mock tier: enumeration driver (see h40_case.cpp for the mock behaviour and the call through the real templates)
#include <cstdio>
#include <cstdlib>
#include <cstring>
#include "h40.h"
int g_stage = 0, g_mode = 0, g_reduce = 0;   // g_reduce: the a-priori factor asks for a smaller step (success with rdt < 1)
long g_stage_hits[ST_COUNT];
const double k0_values[11] = {0, 1, 2, 3, 4, -1, -2, -3, 100, 104, 97};
static const char* stage_name[] = {"none", "initialize", "checkBounds", "a-priori-time-step", "integrate", "a-posteriori-time-step", "tangent-operator", "internal-energy", "dissipated-energy", "speed-of-sound"};
static const char* mode_name[] = {"returns-failure", "throws-std-exception", "throws-non-std-exception"};
static const char* wrapper_name[] = {"Integrate.hxx(direct)", "LogarithmicStrainIntegrate.hxx", "GreenLagrangeStrainIntegrate.hxx", "StandardFiniteStrainBehaviourIntegrate.hxx"};
static const char* hyp_name[] = {"AxisymmetricalGeneralisedPlaneStrain", "PlaneStrain", "PlaneStress", "Tridimensional"};
Result dispatch(const Case& c) {
  switch (c.hyp) { case 0: return run_case_hyp0(c); case 1: return run_case_hyp1(c); case 2: return run_case_hyp2(c); default: return run_case_hyp3(c); }
}
static void print_case(const Case& c, const Result& r, const char* cls) {
  printf("{\"cls\":\"%s\",\"case\":[%d,%d,%d,%d,%d,%d,%d,%d],\"wrapper\":\"%s\",\"hypothesis\":\"%s\",\"stage\":\"%s\",\"mode\":\"%s\",\"K0\":%g,\"stress_measure\":%d,\"tangent_flavour\":%d,\"reduce\":%d,\"ret\":%d,\"detail\":\"%s\"}\n",
         cls, c.wrapper, c.hyp, c.stage, c.mode, c.k0, c.k1, c.k2, c.reduce, wrapper_name[c.wrapper], hyp_name[c.hyp], stage_name[c.stage], mode_name[c.mode], k0_values[c.k0], c.k1, c.k2, c.reduce, r.r, r.what.c_str());
}

int main(int argc, char** argv) {
  if (argc >= 10 && !strcmp(argv[1], "--case")) {
    Case c{atoi(argv[2]), atoi(argv[3]), atoi(argv[4]), atoi(argv[5]), atoi(argv[6]), atoi(argv[7]), atoi(argv[8]), atoi(argv[9])};
    Result r = dispatch(c);
    bool bad = (r.r == -1 && !r.untouched) || (c.stage == ST_NONE && r.r < 0 && c.k1 <= 2 && c.k2 <= 3);
    print_case(c, r, bad ? (r.r == -1 ? "state-modified-on-failure" : "fault-free-call-failed") : "ok");
    return 0;
  }
  long cases = 0, failed_calls = 0, faulted_cases = 0, violations = 0, samples = 0, fault_not_reached = 0, sanity_fail = 0;
  long by_stage_failed[ST_COUNT] = {0};
  const int nk0 = 11;
  for (int w = 0; w < 4; ++w) for (int h = 0; h < 4; ++h) for (int st = 0; st < ST_COUNT; ++st) for (int m = 0; m < 3; ++m) {
    if (st == ST_NONE && m != 0) continue;
    if (st >= ST_INTERNAL_ENERGY && m == M_RETURN_FAILURE) continue;   // those callbacks return nothing: they can only fail by throwing
    for (int k0 = 0; k0 < nk0; ++k0) for (int k1 = 0; k1 < (w == 0 ? 1 : 4); ++k1) for (int k2 = 0; k2 < (w == 0 ? 1 : 5); ++k2) for (int red = 0; red < 2; ++red) {   // k1 == 3 / k2 == 4: invalid stress measure / tangent operator requested by the caller
      Case c{w, h, st, m, k0, k1, k2, red};
      long before = g_stage_hits[st];
      Result r = dispatch(c);
      ++cases;
      bool reached = st != ST_NONE && g_stage_hits[st] > before;
      if (st != ST_NONE) { ++faulted_cases; if (!reached) ++fault_not_reached; }
      if (r.r == -1) { ++failed_calls; by_stage_failed[st]++; }
      if (r.r == -1 && !r.untouched) { ++violations; print_case(c, r, "state-modified-on-failure"); }
      else if (st == ST_NONE && r.r < 0 && k1 <= 2 && k2 <= 3) { ++sanity_fail; print_case(c, r, "fault-free-call-failed"); }
      else if ((cases % 4001) == 0 && samples < 8) { ++samples; print_case(c, r, "sample"); }
    }
  }
  printf("{\"summary\":true,\"cases\":%ld,\"faulted_cases\":%ld,\"fault_reached\":%ld,\"failed_calls\":%ld,\"violations\":%ld,\"sanity_failures\":%ld,\"failed_by_stage\":{", cases, faulted_cases, faulted_cases - fault_not_reached, failed_calls, violations, sanity_fail);
  for (int st = 1; st < ST_COUNT; ++st) printf("%s\"%s\":%ld", st > 1 ? "," : "", stage_name[st], by_stage_failed[st]);
  printf("}}\n");
  return 0;
}
