// shared declarations of the C40 mock-tier harness
#pragma once
#include <string>
enum Stage { ST_NONE = 0, ST_INITIALIZE, ST_CHECKBOUNDS, ST_APRIORI, ST_INTEGRATE, ST_APOSTERIORI, ST_TANGENT, ST_INTERNAL_ENERGY, ST_DISSIPATED_ENERGY, ST_SPEED_OF_SOUND, ST_INITFN, ST_POSTFN, ST_COUNT };
enum Mode { M_RETURN_FAILURE = 0, M_THROW_STD = 1, M_THROW_OTHER = 2 };
struct Case { int wrapper, hyp, stage, mode, k0, k1, k2, reduce; };
struct Result { int r; bool untouched; std::string what; };
extern int g_stage, g_mode, g_reduce, g_axial;   // g_axial: the mock ends the step with an axial strain of -0.75 (1 + 2 ezz < 0)
extern long g_stage_hits[ST_COUNT];
extern const double k0_values[11];
Result run_case_hyp0(const Case&); Result run_case_hyp1(const Case&); Result run_case_hyp2(const Case&); Result run_case_hyp3(const Case&);
