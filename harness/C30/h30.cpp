// C30 — Child-process exit status is reported faithfully under any schedule.
// Real code: /repo/src/System/{ProcessManager.cxx,ProcessManager-c.c,SignalManager.cxx,SignalHandler.cxx,System.cxx,
// SystemError.cxx}, src/Exception/TFELException.cxx (parent side).  Simulated: the kernel (fork/waitpid/pipe/kill/
// sigaction/sigprocmask), the child side of createProcess (a state machine), pthread primitives, the scheduler.
#include <stdexcept>
#include <thread>
#include "TFEL/System/ProcessManager.hxx"
#include "TFEL/System/SystemError.hxx"
#include "../../sim/hutil.h"

namespace {
enum { E_EXEC_BEGIN = 2001, E_EXEC_END, E_MANAGER_CREATED, E_MANAGER_DESTROYED };
// verdict codes
enum { V_OK = 0, V_EXIT_NONZERO = 1, V_SIGNAL = 2, V_EXEC_FAILED = 3, V_OTHER = 9 };

struct State { std::vector<std::string> bad; std::set<uint64_t> abs; long cmds = 0; };
State* S = nullptr;

void sample_abs() {
  int sc[8]; vsim::state_counts(sc);
  uint64_t a = uint64_t(std::min(sc[0], 3)) | (uint64_t(std::min(sc[1], 3)) << 4) | (uint64_t(std::min(sc[5], 3)) << 8) | (uint64_t(std::min(sc[6], 3)) << 12) | (uint64_t(std::min(vsim::children_unreaped(), 3)) << 16);
  S->abs.insert(a);
}

int classify(const std::string& msg) {
  if (msg.find("exited abnormally with value") != std::string::npos) return V_EXIT_NONZERO;
  if (msg.find("du to a signal") != std::string::npos) return V_SIGNAL;
  if (msg.find("execvp failed") != std::string::npos) return V_EXEC_FAILED;
  return V_OTHER;
}

void run_command(tfel::system::ProcessManager& m, int tid, size_t opi, const std::vector<long>& op) {
  vsim::Fate f; f.kind = int(op[1]); f.value = int(op[2]); f.min_steps = int(op[3]);
  if (f.kind == 0) f.value &= 0xff;
  if (f.kind == 1 && (f.value < 1 || f.value > 31)) f.value = 9;
  if (op.size() > 6 && op[6] > 0 && f.kind != 2) { f.stop_at = int(std::min<long>(op[6], 30)); f.stop_len = 3 + int(op[6] % 5); f.min_steps = std::max(f.min_steps, f.stop_at + 1); }   // job control: stopped, then continued
  for (long y = 0; y < op[4] && y < 8; ++y) vsim::yield();
  int verdict = -1; std::string msg;
  vsim::set_next_fate(f);
  vsim::event(E_EXEC_BEGIN, long(opi), tid); sample_abs();
  const bool with_output_file = op.size() > 5 && op[5] != 0;   // as tfel-check does: the command's output is redirected to a file
  try { if (with_output_file) m.execute(std::string("."), std::string("cmd"), std::string(""), std::string("/dev/null"), std::map<std::string, std::string>{}); else m.execute("cmd"); verdict = V_OK; }
  catch (std::exception& e) { msg = e.what(); verdict = classify(msg); }
  vsim::event(E_EXEC_END, long(opi), verdict); sample_abs();
  vsim::pids_settled();
  int expected = f.kind == 2 ? V_EXEC_FAILED : f.kind == 1 ? V_SIGNAL : (f.value == 0 ? V_OK : V_EXIT_NONZERO);
  if (verdict == V_EXIT_NONZERO && expected == V_EXIT_NONZERO) {
    if (msg.find("value " + std::to_string(f.value)) == std::string::npos) verdict = 8;   // wrong exit value reported
  }
  S->cmds++;
  if (verdict != expected) {
    static const char* names[] = {"success", "exited-nonzero", "killed-by-signal", "exec-failed", "", "", "", "", "wrong-exit-value", "other-error"};
    S->bad.push_back(std::string("command #") + std::to_string(opi) + " of thread " + std::to_string(tid) + ": child " +
                     (f.kind == 2 ? "failed to exec" : f.kind == 1 ? "was killed by signal " + std::to_string(f.value) : "exited with " + std::to_string(f.value)) +
                     " but execute() reported " + names[verdict < 0 ? 9 : verdict] + (msg.empty() ? "" : " (" + msg + ")") +
                     " [expected " + names[expected] + "]");
  }
}

void caller(int tid, const hu::Plan* plan, bool reuse) {
  std::unique_ptr<tfel::system::ProcessManager> shared;
  for (size_t i = 0; i < plan->ops.size(); ++i) {
    auto& op = plan->ops[i];
    if (op.size() < 5 || op[0] != tid) continue;
    try {
      if (reuse) { if (!shared) shared = std::make_unique<tfel::system::ProcessManager>(); run_command(*shared, tid, i, op); }
      else { tfel::system::ProcessManager m; run_command(m, tid, i, op); }
    } catch (std::exception& e) { S->bad.push_back(std::string("unexpected exception outside execute(): ") + e.what()); }
  }
}

struct H30 : hu::Harness {
  const char* property() const override { return "C30"; }
  bool first_use_run() override { return true; }   // the allocation index of a run must not depend on one-off initialisations of the process
  hu::Plan generate(uint64_t seed, int tier, vsim::Config& cfg) override {
    hu::Rng r(seed); hu::Plan p;
    long nt = tier >= 1 ? (r.chance(1, 3) ? r.range(5, 16) : r.range(1, 4)) : (r.chance(1, 3) ? 1 : r.range(2, 4));
    long bias = r.chance(1, 2); long reuse = r.chance(1, 4);
    p.params = {nt, bias, reuse};
    for (long t = 0; t < nt; ++t) {
      long nc = tier >= 1 ? r.range(1, 8) : r.range(1, 4);
      for (long k = 0; k < nc; ++k) {
        long w = r.range(0, 9), kind = 0, val = 0;
        if (w < 3) { kind = 0; val = 0; } else if (w < 6) { kind = 0; val = r.range(1, 5) * (r.chance(1, 8) ? 50 : 1); } else if (w < 9) { kind = 1; static const long sg[] = {9, 11, 15, 6, 2}; val = sg[r.range(0, 4)]; } else kind = 2;
        p.ops.push_back({t, kind, val, r.chance(1, 3) ? 0 : r.range(0, 12), r.range(0, 2), r.chance(1, 2) ? 1 : 0, r.chance(1, 6) ? r.range(1, 12) : 0});
      }
    }
    for (size_t i = p.ops.size(); i > 1; --i) { size_t j = size_t(r.range(0, long(i) - 1)); if (p.ops[i - 1][0] != p.ops[j][0]) std::swap(p.ops[i - 1], p.ops[j]); }
    cfg.strategy = int(r.range(0, 3)); cfg.sticky_num = int(r.range(1, 3)); cfg.starve_thread = int(r.range(0, nt - 1));
    cfg.sig_linux_bias = int(bias);
    if (r.chance(1, 4)) { static const int rates[] = {2, 5, 11, 23}; cfg.alloc_rate = rates[r.range(0, 3)]; cfg.alloc_phase = int(r.range(0, 22)); }   // a share of the runs: allocations of the code under test as scheduling points
    cfg.sigchld_ignored = r.chance(1, 5) ? 1 : 0;   // ambient dimension: the process inherited SIGCHLD ignored from whatever started it
    cfg.pid_recycle = r.chance(1, 3) ? 1 : 0;   // history dimension: the kernel hands out the pid of a reaped child again
    cfg.max_steps = 4000 + 3000 * long(p.ops.size());
    if (r.chance(1, 5)) { long n = r.range(1, 2); for (long k = 0; k < n; ++k) p.faults.push_back({vsim::F_STRAY_SIGCHLD, r.range(1, 60 * long(p.ops.size())), 0}); }
    return p;
  }
  std::string describe(const hu::Plan& p) override {
    auto par = [&p](size_t i, long d) { return p.params.size() > i ? p.params[i] : d; };
    std::string s = "threads=" + std::to_string(par(0, 1)) + " sigchld_target=" + (par(1, 0) ? "forking-thread-preferred(Linux)" : "any-eligible-thread(POSIX)") + " manager=" + (par(2, 0) ? "one-per-thread" : "one-per-command") + " cmds:";   // (pid recycling is part of cfg)
    size_t n = 0;
    for (auto& o : p.ops) { if (o.size() < 5) continue; if (++n > 20) { s += " ..."; break; }
      s += " t" + std::to_string(o[0]) + ":" + (o[1] == 2 ? std::string("execfail") : o[1] == 1 ? "sig" + std::to_string(o[2]) : "exit" + std::to_string(o[2])) + "@" + std::to_string(o[3]) + ((o.size() > 5 && o[5]) ? ">file" : "") + ((o.size() > 6 && o[6] > 0 && o[1] != 2) ? "+stopped@" + std::to_string(o[6]) : ""); }
    for (auto& f : p.faults) if (f.size() >= 3) s += " fault:stray-SIGCHLD@step" + std::to_string(f[1]);
    return s;
  }
  // long-lived process: n managers are created and destroyed (inside a trivial single-threaded simulation) before the runs
  void warm(long n) override {
    vsim::Config c; c.strategy = vsim::S_STICKY; c.sticky_num = 4; c.max_steps = 1000 * n + 1000;
    vsim::begin(c);
    for (long i = 0; i < n; ++i) { tfel::system::ProcessManager m; }
    vsim::end();
  }
  hu::Outcome run(const hu::Plan& plan, const vsim::Config& cfg0) override {
    hu::Outcome out; State st; S = &st;
    vsim::Config cfg = cfg0;
    long nt = plan.params.size() > 0 ? std::max<long>(1, std::min<long>(plan.params[0], 32)) : 1;
    if (plan.params.size() > 1) cfg.sig_linux_bias = int(plan.params[1]);
    bool reuse = plan.params.size() > 2 && plan.params[2];
    vsim::begin(cfg);
    {
      std::vector<std::thread> ts;
      for (long t = 1; t < nt; ++t) ts.emplace_back(caller, int(t), &plan, reuse);
      caller(0, &plan, reuse);
      for (auto& t : ts) t.join();
    }
    int zombies = vsim::children_unreaped(), fds = vsim::fake_fds_open();
    vsim::end();
    if (!st.bad.empty()) { out.cls = st.bad[0].find("unexpected exception") == 0 ? "unexpected-exception" : "wrong-verdict"; out.detail = st.bad[0]; if (st.bad.size() > 1) out.detail += " (+" + std::to_string(st.bad.size() - 1) + " more)"; }
    out.probes[nt > 1 ? "runs_multi_thread" : "runs_single_thread"] = 1;
    out.probes["commands"] = st.cmds;
    if (cfg.sigchld_ignored) out.probes["runs_started_with_sigchld_ignored"] = 1;
    if (zombies) out.probes["info_children_left_unreaped"] = zombies;
    if (fds) out.probes["info_simulated_fds_left_open"] = fds;
    // order probes: who reaped, per run
    out.abstract_states.assign(st.abs.begin(), st.abs.end());
    S = nullptr;
    return out;
  }
};
}  // namespace

extern "C" __attribute__((used)) const char* __asan_default_options() { return "exitcode=77:detect_leaks=0:abort_on_error=0:handle_segv=1"; }
extern "C" __attribute__((used)) const char* __ubsan_default_options() { return "halt_on_error=1:exitcode=77:print_stacktrace=1"; }
int main(int argc, char** argv) { H30 h; return hu::harness_main(argc, argv, h); }
