// C08 (fault clauses) — fixed-size nonlinear solvers never claim false convergence.
// Real code: the solver templates of include/TFEL/Math/NonLinearSolvers instantiated from /repo for N in {1,2,3,4,6,8}.
// Stub: the residual callback (CRTP child) which logs every evaluation and follows a fault plan: at chosen
// evaluations it returns false, or poisons the residual / the jacobian with NaN or +-inf.
#include <cmath>
#include <cstdio>
#include <cstdlib>
#include <cstring>
#include <limits>
#include <string>
#include <vector>
#include "TFEL/Math/tvector.hxx"
#include "TFEL/Math/tmatrix.hxx"
#ifndef SOLVER_INDEX
#define SOLVER_INDEX 0
#endif

enum FaultKind { FK_NONE = 0, FK_RETURN_FALSE, FK_NAN_RESIDUAL, FK_PINF_RESIDUAL, FK_NINF_RESIDUAL, FK_NAN_JACOBIAN, FK_COUNT };
static const char* fk_name[] = {"none", "returns-false", "NaN-in-residual", "+inf-in-residual", "-inf-in-residual", "NaN-in-jacobian"};
enum Family { FAM_AFFINE = 0, FAM_NONLINEAR, FAM_SINGULAR_START, FAM_AFFINE_1EM6, FAM_AFFINE_1EM9, FAM_AFFINE_1EM12, FAM_COUNT };
static const char* fam_name[] = {"affine-well-conditioned", "mildly-nonlinear-known-root", "singular-jacobian-at-start", "affine-well-conditioned-scaled-1e-6", "affine-well-conditioned-scaled-1e-9", "affine-well-conditioned-scaled-1e-12"};
// the scaled families are the affine system multiplied by a constant (same condition number, same Newton iterates); the convergence
// threshold is scaled with them: Newton's method is invariant under such a scaling, an absolute pivot or determinant test is not
// families FAM_COUNT .. FAM_COUNT+47 (N >= 4 only): the equations of an affine system in any order.  The matrix is a row permutation
// (all 24 permutations of the first four rows) of a sparse unit upper triangular matrix (two bases): regular and well conditioned, but its
// LU decomposition needs row exchanges, several in a row for some permutations (zeros on the diagonal)
enum { NPERMFAM = 48 };
static bool is_permuted(int fam) { return fam >= FAM_COUNT && fam < FAM_COUNT + NPERMFAM; }
// one more family, FAM_COUNT+NPERMFAM: Rosenbrock's valley (f0 = 10 (x1 - x0^2), f1 = 1 - x0, f_i = x_i - 1) started at (-1.2, 1, ...): trial steps are
// rejected and restarted all along, for every budget from 1 to 60 (the budget tests of the solvers are equalities on a counter)
enum { FAM_ROSENBROCK = FAM_COUNT + NPERMFAM, FAM_LAST_SLOW };
// FAM_LAST_SLOW: every equation but the last is linear (solved by the first correction), the last one is cubic and needs several more
// iterations: the residual is small in all components but the last for a few iterates
static bool is_affine(int fam) { return fam == FAM_AFFINE || (fam >= FAM_AFFINE_1EM6 && fam < FAM_COUNT) || is_permuted(fam); }
static void perm4(int k, int out[4]) { int pool[4] = {0, 1, 2, 3}; int n = 4; for (int i = 0; i < 4; ++i) { int f = 1; for (int j = 2; j < n; ++j) f *= j; int q = k / f; k %= f; out[i] = pool[q]; for (int j = q; j + 1 < n; ++j) pool[j] = pool[j + 1]; --n; } }
static std::string family_name(int fam) {
  if (fam == FAM_ROSENBROCK) return "rosenbrock-valley";
  if (fam == FAM_LAST_SLOW) return "linear-but-the-last-equation(cubic)";
  if (!is_permuted(fam)) return fam_name[fam];
  int pm[4]; perm4((fam - FAM_COUNT) % 24, pm);
  return std::string("affine-rows-permuted(base=") + ((fam - FAM_COUNT) / 24 ? "I+2*superdiagonal" : "I+2*e0e1^T") + ",rows=" + std::to_string(pm[0]) + std::to_string(pm[1]) + std::to_string(pm[2]) + std::to_string(pm[3]) + ")";
}
static double scale_of(int fam) { return fam == FAM_AFFINE_1EM6 ? 1e-6 : fam == FAM_AFFINE_1EM9 ? 1e-9 : fam == FAM_AFFINE_1EM12 ? 1e-12 : 1.0; }
static const char* solver_name[] = {"TinyNewtonRaphsonSolver", "TinyBroydenSolver", "TinyBroyden2Solver", "TinyPowellDogLegNewtonRaphsonSolver", "TinyPowellDogLegBroydenSolver", "TinyLevenbergMarquardtSolver",
                                    "TinyNewtonRaphsonSolver(external workspace: views on a caller's buffer)", "TinyNewtonRaphsonSolver(heap workspace: tfel::math::vector / matrix, LUSolve)"};
// solvers 6 and 7 are the Newton-Raphson solver with the two other kinds of workspace the ExternalWorkSpace template parameter documents
// (upstream only instantiates them for N = 2): residual norm, linear solve and assignments go through other overloads than with the default
#if SOLVER_INDEX == 6
#define WORKSPACE 1
#elif SOLVER_INDEX == 7
#define WORKSPACE 2
#else
#define WORKSPACE 0
#endif
#if SOLVER_INDEX == 0 || SOLVER_INDEX >= 6
#define IS_NEWTON 1
#else
#define IS_NEWTON 0
#endif

struct Plan { int family; int iterMax; unsigned fault_mask; int kind; };   // bit k of fault_mask: evaluation k is faulty
struct Eval { std::vector<double> x; bool faulty; bool injected; };
struct Log { std::vector<Eval> evals; };
struct Runaway {};

template <unsigned short N> void reference(int family, const tfel::math::tvector<N, double>& x, tfel::math::tvector<N, double>& f, tfel::math::tmatrix<N, N, double>* J) {
  if (J) for (unsigned short i = 0; i < N; ++i) for (unsigned short j = 0; j < N; ++j) (*J)(i, j) = 0;
  if (family == FAM_ROSENBROCK) {
    for (unsigned short i = 0; i < N; ++i) { f(i) = x(i) - 1; if (J) (*J)(i, i) = 1; }
    if (N >= 2) { f(0) = 10 * (x(1) - x(0) * x(0)); f(1) = 1 - x(0); if (J) { (*J)(0, 0) = -20 * x(0); (*J)(0, 1) = 10; (*J)(1, 0) = -1; (*J)(1, 1) = 0; } }
    return;
  }
  if (family == FAM_LAST_SLOW) {
    for (unsigned short i = 0; i < N; ++i) { f(i) = x(i) - double(i + 1) / N; if (J) (*J)(i, i) = 1; }
    const unsigned short l = N - 1; f(l) = x(l) * x(l) * x(l) - 8.; if (J) (*J)(l, l) = 3 * x(l) * x(l);   // root 2, started at 0.05 N
    return;
  }
  if (is_permuted(family)) {
    int pm[4]; perm4((family - FAM_COUNT) % 24, pm); const bool super = (family - FAM_COUNT) / 24 != 0;
    for (unsigned short i = 0; i < N; ++i) {
      const unsigned short r = (i < 4 && N >= 4) ? static_cast<unsigned short>(pm[i]) : i;   // equation i is row r of the base matrix
      const double root_r = double(r + 1) / N;
      f(i) = x(r) - root_r; if (J) (*J)(i, r) = 1;
      if ((super || r == 0) && r + 1 < N) { f(i) += 2 * (x(r + 1) - double(r + 2) / N); if (J) (*J)(i, r + 1) = 2; }
    }
    return;
  }
  for (unsigned short i = 0; i < N; ++i) {
    if (is_affine(family)) {
      const double c = scale_of(family);
      const double ri = double(i + 1) / N, rm = i > 0 ? double(i) / N : 0, rp = i + 1 < N ? double(i + 2) / N : 0;
      f(i) = c * (4 * (x(i) - ri) + (i > 0 ? (x(i - 1) - rm) : 0) + (i + 1 < N ? (x(i + 1) - rp) : 0));
      if (J) { (*J)(i, i) = 4 * c; if (i > 0) (*J)(i, i - 1) = c; if (i + 1 < N) (*J)(i, i + 1) = c; }
    } else if (family == FAM_NONLINEAR) {
      const double ri = 0.5 + 0.1 * i, rp = 0.5 + 0.1 * (i + 1);
      const double ci = ri + 0.1 * ri * ri * ri + (i + 1 < N ? 0.05 * rp : 0);
      f(i) = x(i) + 0.1 * x(i) * x(i) * x(i) + (i + 1 < N ? 0.05 * x(i + 1) : 0) - ci;
      if (J) { (*J)(i, i) = 1 + 0.3 * x(i) * x(i); if (i + 1 < N) (*J)(i, i + 1) = 0.05; }
    } else {
      f(i) = x(i) * x(i) - 1;
      if (J) (*J)(i, i) = 2 * x(i);
    }
  }
}

// only the header of the solver under test is included: two of the .ixx files of the repository share an include guard
#if SOLVER_INDEX == 0
#include "TFEL/Math/TinyNewtonRaphsonSolver.hxx"
#define SOLVER_T tfel::math::TinyNewtonRaphsonSolver
#define HAS_USER_JACOBIAN 1
#elif SOLVER_INDEX >= 6
#include "TFEL/Math/TinyNewtonRaphsonSolver.hxx"
#include "TFEL/Math/vector.hxx"
#include "TFEL/Math/matrix.hxx"
#include "TFEL/Math/LUSolve.hxx"
#include "TFEL/Math/Array/View.hxx"
#define HAS_USER_JACOBIAN 1
template <unsigned short N, typename NumericType>
struct ExternallyAllocatedWorkspace {
  explicit ExternallyAllocatedWorkspace(NumericType* const v) : fzeros(v), zeros(v + N), delta_zeros(v + 2 * N), jacobian(v + 3 * N) {}
  tfel::math::View<tfel::math::tvector<N, NumericType>> fzeros, zeros, delta_zeros;
  tfel::math::View<tfel::math::tmatrix<N, N, NumericType>> jacobian;
};
template <unsigned short N, typename NumericType>
struct HeapAllocatedWorkspace {
  HeapAllocatedWorkspace() : fzeros(N), zeros(N), delta_zeros(N), jacobian(N, N) {}
  tfel::math::vector<NumericType> fzeros, zeros, delta_zeros;
  tfel::math::matrix<NumericType> jacobian;
};
template <unsigned short N> struct Buffer { double values[3 * N + N * N]; };
#if SOLVER_INDEX == 6
template <unsigned short N, typename T, typename C> using SolverWithWorkspace = tfel::math::TinyNewtonRaphsonSolver<N, T, C, ExternallyAllocatedWorkspace>;
#else
template <unsigned short N, typename T, typename C> using SolverWithWorkspace = tfel::math::TinyNewtonRaphsonSolver<N, T, C, HeapAllocatedWorkspace>;
#endif
#define SOLVER_T SolverWithWorkspace
#elif SOLVER_INDEX == 1
#include "TFEL/Math/TinyBroydenSolver.hxx"
#define SOLVER_T tfel::math::TinyBroydenSolver
#define HAS_USER_JACOBIAN 0
#elif SOLVER_INDEX == 2
#include "TFEL/Math/TinyBroyden2Solver.hxx"
#define SOLVER_T tfel::math::TinyBroyden2Solver
#define HAS_USER_JACOBIAN 0
#elif SOLVER_INDEX == 3
#include "TFEL/Math/TinyPowellDogLegNewtonRaphsonSolver.hxx"
#define SOLVER_T tfel::math::TinyPowellDogLegNewtonRaphsonSolver
#define HAS_USER_JACOBIAN 1
#elif SOLVER_INDEX == 4
#include "TFEL/Math/TinyPowellDogLegBroydenSolver.hxx"
#define SOLVER_T tfel::math::TinyPowellDogLegBroydenSolver
#define HAS_USER_JACOBIAN 0
#else
#include "TFEL/Math/TinyLevenbergMarquardtSolver.hxx"
#define SOLVER_T tfel::math::TinyLevenbergMarquardtSolver
#define HAS_USER_JACOBIAN 1
#endif

template <unsigned short N>
#if WORKSPACE == 1
struct Probe : public Buffer<N>, public SOLVER_T<N, double, Probe<N>> {
#else
struct Probe : public SOLVER_T<N, double, Probe<N>> {
#endif
  const Plan* plan = nullptr; Log* log = nullptr;
#if WORKSPACE == 1
  Probe(const Plan& p, Log& l) : SOLVER_T<N, double, Probe<N>>(static_cast<Buffer<N>*>(this)->values), plan(&p), log(&l) {
#else
  Probe(const Plan& p, Log& l) : plan(&p), log(&l) {
#endif
    for (unsigned short i = 0; i < N; ++i) this->zeros(i) = (p.family == FAM_SINGULAR_START) ? 0. : (p.family == FAM_ROSENBROCK) ? (i == 0 ? -1.2 : 1.) : 0.05 * (i + 1);
    this->epsilon = 1.e-10 * scale_of(p.family);
    this->iterMax = static_cast<unsigned short>(p.iterMax);
#if SOLVER_INDEX == 1 || SOLVER_INDEX == 4
    { tfel::math::tvector<N, double> f; reference<N>(p.family == FAM_SINGULAR_START ? FAM_AFFINE : p.family, this->zeros, f, &(this->jacobian)); }
#elif SOLVER_INDEX == 2
    for (unsigned short i = 0; i < N; ++i) for (unsigned short j = 0; j < N; ++j) this->inv_jacobian(i, j) = (i == j) ? 0.25 / scale_of(p.family) : 0.;
#endif
#if SOLVER_INDEX == 3 || SOLVER_INDEX == 4
    this->powell_dogleg_trust_region_size = 1.;
#endif
#if SOLVER_INDEX == 5
    this->levmar_mu0 = 1.e-6; this->levmar_p0 = 1.e-4; this->levmar_p1 = 0.25; this->levmar_p2 = 0.75; this->levmar_m = 1.e-8;
#endif
  }
  bool solve() { return this->solveNonLinearSystem(); }
  unsigned short iterations() const { return this->iter; }
  using SOLVER_T<N, double, Probe<N>>::zeros;
  tfel::math::tvector<N, double> unknowns() const { tfel::math::tvector<N, double> r; for (unsigned short i = 0; i < N; ++i) r(i) = this->zeros(i); return r; }
#if WORKSPACE == 2
  // a heap workspace leaves the linear solve to the child, as upstream's NewtonRaphsonSolver4 does
  bool solveLinearSystem(tfel::math::matrix<double>& m, tfel::math::vector<double>& v) const noexcept { try { tfel::math::LUSolve::exe(m, v); } catch (...) { return false; } return true; }
#endif
  bool computeResidual() {
    const size_t k = log->evals.size();
    Eval e; e.x.assign(this->zeros.begin(), this->zeros.end());
    const bool faulty = k < 32 && ((plan->fault_mask >> k) & 1u);
    e.injected = faulty; e.faulty = faulty && !(plan->kind == FK_NAN_JACOBIAN && HAS_USER_JACOBIAN); log->evals.push_back(e);   // a poisoned jacobian does not invalidate the residual itself
    if (k > 4096) throw Runaway{};   // endless loop: the run is stopped here and reported by the evaluation-bound oracle
#if WORKSPACE != 0
    { tfel::math::tvector<N, double> x_, f_; tfel::math::tmatrix<N, N, double> J_; for (unsigned short i = 0; i < N; ++i) x_(i) = this->zeros(i);
      reference<N>(plan->family, x_, f_, &J_);
      for (unsigned short i = 0; i < N; ++i) { this->fzeros(i) = f_(i); for (unsigned short c = 0; c < N; ++c) this->jacobian(i, c) = J_(i, c); } }
#elif HAS_USER_JACOBIAN
    reference<N>(plan->family, this->zeros, this->fzeros, &(this->jacobian));
#else
    reference<N>(plan->family, this->zeros, this->fzeros, nullptr);
#endif
    if (!faulty) return true;
    const unsigned short j = static_cast<unsigned short>(k % N);
    switch (plan->kind) {
      case FK_RETURN_FALSE: return false;
      case FK_NAN_RESIDUAL: this->fzeros(j) = std::numeric_limits<double>::quiet_NaN(); return true;
      case FK_PINF_RESIDUAL: this->fzeros(j) = std::numeric_limits<double>::infinity(); return true;
      case FK_NINF_RESIDUAL: this->fzeros(j) = -std::numeric_limits<double>::infinity(); return true;
      default:
#if HAS_USER_JACOBIAN
        this->jacobian(j, j) = std::numeric_limits<double>::quiet_NaN();
#else
        this->fzeros(j) = std::numeric_limits<double>::quiet_NaN();
#endif
        return true;
    }
  }
};

struct Verdict { std::string cls = "ok"; std::string detail; bool converged = false; int iter = 0; size_t evals = 0; bool any_fault_hit = false; };

template <unsigned short N> Verdict run_plan(const Plan& p) {
  Verdict v; Log log;
  Probe<N> s(p, log);
  bool ok = false;
  try { ok = s.solve(); }
  catch (Runaway&) { v.cls = "too-many-evaluations"; v.detail = "run stopped by the harness after " + std::to_string(log.evals.size()) + " residual evaluations for iterMax=" + std::to_string(p.iterMax) + " (the iteration budget no longer ends the loop)"; v.evals = log.evals.size(); for (auto& e : log.evals) if (e.injected) v.any_fault_hit = true; return v; }
  v.converged = ok; v.iter = s.iterations(); v.evals = log.evals.size();
  for (auto& e : log.evals) if (e.injected) v.any_fault_hit = true;
  auto fail = [&v](const char* c, const std::string& d) { if (v.cls == "ok") { v.cls = c; v.detail = d; } };
  if (v.iter > p.iterMax) fail("iter-exceeds-iterMax", "iter=" + std::to_string(v.iter) + " iterMax=" + std::to_string(p.iterMax));
  if (v.evals > size_t(2 * p.iterMax + 2)) fail("too-many-evaluations", std::to_string(v.evals) + " residual evaluations for iterMax=" + std::to_string(p.iterMax));
  if (ok) {
    if (log.evals.empty()) fail("success-without-evaluation", "solver reported success without evaluating the residual");
    else {
      const Eval& last = log.evals.back();
      if (last.faulty) fail("success-on-faulty-evaluation", std::string("the last evaluation (#") + std::to_string(log.evals.size() - 1) + ") was the injected " + fk_name[p.kind]);
      if (memcmp(last.x.data(), s.unknowns().begin(), sizeof(double) * N) != 0) fail("success-at-other-point", "the returned unknowns are not the point of the last residual evaluation");
      tfel::math::tvector<N, double> f; reference<N>(p.family, s.unknowns(), f, nullptr);
      double n2 = 0; bool fin = true; for (unsigned short i = 0; i < N; ++i) { n2 += f(i) * f(i); if (!std::isfinite(f(i))) fin = false; }
      if (!fin) fail("success-with-non-finite-residual", "residual at the returned unknowns is not finite");
      else if (!(std::sqrt(n2) < 1.e-10 * scale_of(p.family) * (1 + 1e-12))) fail("success-without-criterion", "||f(returned unknowns)|| = " + std::to_string(std::sqrt(n2)) + " >= epsilon");
      for (unsigned short i = 0; i < N; ++i) if (!std::isfinite(s.unknowns()(i))) fail("success-with-non-finite-unknowns", "returned unknowns are not finite");
    }
  }
  // the same solver object is used again, for a fault-free resolution of the same system from the same initial guess: the iteration budget
  // and the success criterion hold for every resolution, not only for the first one of an object
  {
    Plan p2{p.family, p.iterMax, 0u, FK_NONE}; Log log2;
    s.plan = &p2; s.log = &log2;
    for (unsigned short i = 0; i < N; ++i) s.zeros(i) = (p.family == FAM_SINGULAR_START) ? 0. : (p.family == FAM_ROSENBROCK) ? (i == 0 ? -1.2 : 1.) : 0.05 * (i + 1);
    bool ok2 = false; bool runaway = false;
    try { ok2 = s.solve(); } catch (Runaway&) { runaway = true; }
    if (runaway) fail("too-many-evaluations", "second resolution on the same object: stopped by the harness after " + std::to_string(log2.evals.size()) + " residual evaluations for iterMax=" + std::to_string(p.iterMax));
    else {
      if (s.iterations() > p.iterMax) fail("iter-exceeds-iterMax", "second resolution on the same object: iter=" + std::to_string(s.iterations()) + " iterMax=" + std::to_string(p.iterMax));
      if (ok2 && log2.evals.empty()) fail("success-without-evaluation", "second resolution on the same object reported success without evaluating the residual");
      if (ok2 && !log2.evals.empty() && memcmp(log2.evals.back().x.data(), s.unknowns().begin(), sizeof(double) * N) != 0) fail("success-at-other-point", "second resolution: the returned unknowns are not the point of the last residual evaluation");
      if (IS_NEWTON && is_affine(p.family) && p.iterMax >= 3 && !ok2) fail("no-convergence-after-faults-stopped", "second, fault-free resolution on the same Newton solver object did not converge on an affine system (iterMax=" + std::to_string(p.iterMax) + ", " + std::to_string(log2.evals.size()) + " evaluations)");
    }
    s.plan = &p; s.log = &log;
  }
#if IS_NEWTON
  // bounded liveness (Newton, affine, rejected evaluations only): once the faults stop, one clean evaluation, one correction
  // and one more evaluation are enough; demanded only when that many iterations are left after the last fault
  if (is_affine(p.family) && p.kind != FK_NAN_JACOBIAN) {
    int last = -1; for (int k = 0; k < 32; ++k) if ((p.fault_mask >> k) & 1u) last = k;
    if (!ok && p.iterMax >= 2 * (last + 1) + 3) fail("no-convergence-after-faults-stopped", "Newton on an affine system did not converge although the last fault was at evaluation " + std::to_string(last) + " and iterMax=" + std::to_string(p.iterMax));
  }
#endif
  return v;
}

static Verdict dispatch(int n, const Plan& p) {
  switch (n) {
    case 1: return run_plan<1>(p); case 2: return run_plan<2>(p); case 3: return run_plan<3>(p); case 4: return run_plan<4>(p); case 6: return run_plan<6>(p);
#if WORKSPACE != 0
    case 5: return run_plan<5>(p); case 7: return run_plan<7>(p);
#endif
    default: return run_plan<8>(p);
  }
}

static void print(const char* cls, int n, const Plan& p, const Verdict& v) {
  printf("{\"cls\":\"%s\",\"case\":[%d,%d,%d,%d,%u,%d],\"solver\":\"%s\",\"N\":%d,\"family\":\"%s\",\"iterMax\":%d,\"faulty_evaluations\":\"", cls, SOLVER_INDEX, n, p.family, p.iterMax, p.fault_mask, p.kind, solver_name[SOLVER_INDEX], n, family_name(p.family).c_str(), p.iterMax);
  bool first = true; for (int k = 0; k < 32; ++k) if ((p.fault_mask >> k) & 1u) { printf("%s%d", first ? "" : ",", k); first = false; }
  printf("\",\"fault\":\"%s\",\"converged\":%d,\"iter\":%d,\"evaluations\":%zu,\"detail\":\"%s\"}\n", fk_name[p.kind], int(v.converged), v.iter, v.evals, v.detail.c_str());
}

int main(int argc, char** argv) {
  if (argc >= 8 && !strcmp(argv[1], "--case")) {
    if (atoi(argv[2]) != SOLVER_INDEX) { fprintf(stderr, "wrong solver binary\n"); return 3; }
    Plan p{atoi(argv[4]), atoi(argv[5]), unsigned(strtoul(argv[6], 0, 10)), atoi(argv[7])};
    Verdict v = dispatch(atoi(argv[3]), p); print(v.cls.c_str(), atoi(argv[3]), p, v); return 0;
  }
  int tier = 0; for (int i = 1; i < argc; ++i) if (!strcmp(argv[i], "--tier") && i + 1 < argc) tier = atoi(argv[++i]);
#if WORKSPACE != 0
  static const int sizes[] = {1, 2, 3, 4, 5, 6, 7, 8};
#else
  static const int sizes[] = {1, 2, 3, 4, 6, 8};
#endif
  static const int iters_quick[] = {0, 1, 2, 4, 7}, iters_thorough[] = {0, 1, 2, 3, 4, 6, 9, 12};
  const int* iters = tier ? iters_thorough : iters_quick; const int niters = tier ? 8 : 5;
  long cases = 0, fault_reached = 0, converged = 0, violations = 0, samples = 0; long by_kind[FK_COUNT] = {0};
  for (int n : sizes) for (int fam = 0; fam < FAM_COUNT + NPERMFAM; ++fam) for (int ii = 0; ii < niters; ++ii) {
    if (is_permuted(fam) && n < 4) continue;
    const int im = iters[ii], npos = std::min(im + 2, tier ? 14 : 9);
    for (unsigned mask = 0; mask < (1u << npos); ++mask) {
      if (__builtin_popcount(mask) > (fam >= FAM_AFFINE_1EM6 ? 1 : 3)) continue;
      if (is_permuted(fam) && mask > 2) continue;   // the permuted families: no fault, or one fault at the first or second evaluation   // the scaled copies of the affine family: at most one fault
      for (int kind = (mask ? 1 : 0); kind < (mask ? int(FK_COUNT) : 1); ++kind) {
        Plan p{fam, im, mask, kind};
        Verdict v = dispatch(n, p);
        ++cases; if (v.any_fault_hit) { ++fault_reached; by_kind[kind]++; } if (v.converged) ++converged;
        if (v.cls != "ok") { ++violations; print(v.cls.c_str(), n, p, v); }
        else if ((cases % 2503) == 0 && samples < 3) { ++samples; print("sample", n, p, v); }
      }
    }
  }
  for (int n : sizes) {   // the valley: every budget, no fault or one fault early on
    if (n < 2) continue;
    for (int im = 1; im <= 60; ++im) for (unsigned mask = 0; mask < 4u; ++mask) {
      if (__builtin_popcount(mask) > 1) continue;
      for (int kind = (mask ? 1 : 0); kind < (mask ? 2 : 1); ++kind) {
        Plan p{FAM_ROSENBROCK, im, mask, kind};
        Verdict v = dispatch(n, p);
        ++cases; if (v.any_fault_hit) { ++fault_reached; by_kind[kind]++; } if (v.converged) ++converged;
        if (v.cls != "ok") { ++violations; print(v.cls.c_str(), n, p, v); }
      }
    }
  }
  for (int n : sizes) {   // all equations but the last converge at once: every budget, no fault or one fault early on
    for (int im = 1; im <= 20; ++im) for (unsigned mask = 0; mask < 8u; ++mask) {
      if (__builtin_popcount(mask) > 1) continue;
      for (int kind = (mask ? 1 : 0); kind < (mask ? int(FK_COUNT) : 1); ++kind) {
        Plan p{FAM_LAST_SLOW, im, mask, kind};
        Verdict v = dispatch(n, p);
        ++cases; if (v.any_fault_hit) { ++fault_reached; by_kind[kind]++; } if (v.converged) ++converged;
        if (v.cls != "ok") { ++violations; print(v.cls.c_str(), n, p, v); }
      }
    }
  }
  printf("{\"summary\":true,\"cases\":%ld,\"fault_reached\":%ld,\"converged\":%ld,\"violations\":%ld,\"fault_kinds_reached\":{", cases, fault_reached, converged, violations);
  for (int k = 1; k < FK_COUNT; ++k) printf("%s\"%s\":%ld", k > 1 ? "," : "", fk_name[k], by_kind[k]);
  printf("}}\n");
  return 0;
}
