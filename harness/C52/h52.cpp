// C52 — tfel-check verdicts are independent of parallelism.
// Real code: /repo/tfel-check/src/*.cxx (tfel-check's main renamed tfel_check_main, TFELCheck::execute, TestLauncher, PCLogger,
// PCTextDriver, ...), /repo/src/System/{ThreadPool,ProcessManager,SignalManager,...}.cxx, parsing of real .check files in a
// scratch directory, real log and output files.  Simulated: the kernel (threads' schedule, processes, pipes, SIGCHLD) and the
// commands themselves (each command is a planned fate looked up from the name of its output file).
#include <sys/stat.h>
#include <ftw.h>
#include <fcntl.h>
#include <iostream>
#include <algorithm>
#include <fstream>
#include <sstream>
#include "../../sim/hutil.h"

#include "MFront/InitDSLs.hxx"
#include "MFront/InitInterfaces.hxx"

int tfel_check_main(const int, const char* const* const);   // tfel-check.cxx compiled with -Dmain=tfel_check_main

// tfel-check's main registers the DSLs and interfaces of mfront in global factories, which can be done only once per process;
// tfel-check.cxx is compiled with -DinitDSLs=verifInitDSLsOnce -DinitInterfaces=verifInitInterfacesOnce so that main can be
// entered twice (sequential reference run, then the explored run)
namespace mfront {
void verifInitDSLsOnce() { static bool done = false; if (!done) { done = true; initDSLs(); } }
void verifInitInterfacesOnce() { static bool done = false; if (!done) { done = true; initInterfaces(); } }
}

namespace {
enum { K_EXIT = 0, K_SIGNAL = 1, K_EXECFAIL = 2, K_OUTPUT = 3, K_COMPARE = 4 };
std::map<std::string, vsim::Fate> g_fates;   // output file name -> fate of the command

vsim::Fate provider(const char* path) {
  std::string p(path);
  auto it = g_fates.find(p);
  if (it == g_fates.end()) { auto s = p.rfind("/./"); (void)s; for (auto& kv : g_fates) if (p.size() >= kv.first.size() && p.compare(p.size() - kv.first.size(), kv.first.size(), kv.first) == 0) return kv.second; vsim::count("fate_not_found"); return vsim::Fate{}; }
  return it->second;
}

struct FilePlan { long id, dir; std::vector<std::vector<long>> items; };

std::string dir_name(long d) { return d == 0 ? "." : "d" + std::to_string(d); }

// writes the .check files and data files of the plan below 'root'; returns the check files grouped
std::vector<FilePlan> materialise(const hu::Plan& p, const std::string& root) {
  std::map<long, FilePlan> files;
  for (auto& o : p.ops) { if (o.size() < 6) continue; auto& f = files[o[0]]; f.id = o[0]; f.dir = std::max<long>(0, std::min<long>(o[1], 3)); f.items.push_back(o); }
  std::vector<FilePlan> out;
  g_fates.clear();
  for (auto& kv : files) {
    FilePlan& f = kv.second;
    const std::string d = root + "/" + dir_name(f.dir);
    mkdir(d.c_str(), 0755);
    // params[3]: directories holding a per-directory tfel-check.config (it only defines an unrelated environment variable: the verdicts of the
    // checks of that directory are those of the same checks anywhere else)
    if (p.params.size() > 3 && ((p.params[3] >> f.dir) & 1)) { std::ofstream cf(d + "/tfel-check.config"); cf << "environment_variables : {\"VSIM_C52_UNRELATED_" << f.dir << "\" : \"1\"};\n"; }
    const std::string name = "t" + std::to_string(f.id);
    std::ofstream c(d + "/" + name + ".check");
    int ncmd = 0, ncmp = 0;
    for (auto& it : f.items) {
      const long kind = it[2];
      if (kind == K_COMPARE) {
        ++ncmp;
        const std::string a = name + "_c" + std::to_string(ncmp) + ".res", b = name + "_c" + std::to_string(ncmp) + ".ref";
        // it[3]: 1 the comparison passes; 0 it fails by value; 2 the reference file is missing; 3 the result is shorter than the reference
        // (the last two make the comparison itself raise an error: the check fails all the same)
        std::ofstream fa(d + "/" + a);
        for (int r = 0; r < (it[3] == 3 ? 2 : 4); ++r) fa << r << " " << 1.0 + r << "\n";
        if (it[3] != 2) { std::ofstream fb(d + "/" + b); for (int r = 0; r < 4; ++r) fb << r << " " << 1.0 + r + ((it[3] == 0 && r == 2) ? 0.5 : 0.0) << "\n"; }
        c << "@TestType Absolute;\n@Precision 1.e-6;\n@Test '" << a << "' '" << b << "' 2;\n";
        continue;
      }
      // a log line is cut at 70 characters: long blocks (over the 8 KiB buffer of the log stream, hence flushed in the middle)
      // are obtained by repeating the command
      const long repeat = (it[5] > 0 && kind == K_EXIT) ? std::min<long>(it[5], 12) * 12 : 1;
      for (long rep = 0; rep < repeat; ++rep) {
      ++ncmd;
      std::string cmd = "vsimcmd_" + std::to_string(f.id) + "_" + std::to_string(ncmd);
      vsim::Fate fate; fate.min_steps = int(std::max<long>(0, std::min<long>(it[4] >> 1, 40)));
      const bool shall_fail = (it[4] & 1) != 0;
      std::string opts;
      if (kind == K_EXIT) { fate.kind = 0; fate.value = int(it[3] & 0xff); }
      else if (kind == K_SIGNAL) { fate.kind = 1; fate.value = (it[3] >= 1 && it[3] <= 31) ? int(it[3]) : 9; }
      else if (kind == K_EXECFAIL) { fate.kind = 2; }
      else { fate.kind = 0; fate.value = 0; fate.output = "hello-" + std::to_string(f.id) + "\n"; opts = std::string("expected_output: \"") + (it[3] ? "hello-" + std::to_string(f.id) : "something-else") + "\""; }
      if (shall_fail) opts += std::string(opts.empty() ? "" : ", ") + "shall_fail: true";
      c << "@Command \"" << cmd << "\"";
      if (!opts.empty()) c << " {" << opts << "}";
      c << ";\n";
      if (repeat > 1) fate.min_steps = 0;
      g_fates[dir_name(f.dir) + "/" + name + "-Exec-" + std::to_string(ncmd) + ".out"] = fate;
      }
    }
    out.push_back(f);
  }
  return out;
}

// recursive removal without fork(): forking a process instrumented by ASan is very expensive
int rm_cb(const char* p, const struct stat*, int, struct FTW*) { return remove(p); }
void rm_rf(const std::string& d) { nftw(d.c_str(), rm_cb, 32, FTW_DEPTH | FTW_PHYS); }

std::string slurp(const std::string& f) { std::ifstream i(f); std::stringstream s; s << i.rdbuf(); return s.str(); }

// blocks of tfel-check.log: from "entering directory" to the "======" line
std::vector<std::string> blocks_of(const std::string& log, std::string& garbage) {
  std::vector<std::string> b; size_t pos = 0; garbage.clear();
  while (pos < log.size()) {
    size_t e = log.find("======\n", pos);
    if (e == std::string::npos) { garbage += log.substr(pos); break; }
    b.push_back(log.substr(pos, e + 7 - pos)); pos = e + 7;
  }
  return b;
}

int run_tfel_check(const std::string& root, long njobs, bool discard, bool sync) {
  std::vector<std::string> a = {"tfel-check", "--jobs=" + std::to_string(njobs), "--discard-jobs-limit=true"};
  a.push_back(discard ? "--discard-commands-failure=true" : "--discard-commands-failure=false");
  if (sync) a.push_back("--synchronize-terminal-output=true");
  std::vector<const char*> av; for (auto& s : a) av.push_back(s.c_str());
  (void)root;
  // tfel-check writes its own report on std::cout: keep it away from the result-line protocol of this harness
  fflush(stdout); std::cout.flush();
  int saved = dup(1), nul = open("/dev/null", O_WRONLY);
  dup2(nul, 1); close(nul);
  int r = -2;
  try { vsim::Monitored code_under_test; r = tfel_check_main(int(av.size()), av.data()); } catch (...) { std::cout.flush(); fflush(stdout); dup2(saved, 1); close(saved); throw; }
  std::cout.flush(); fflush(stdout); dup2(saved, 1); close(saved);
  return r < 0 ? r : (r & 0xff);   // what the parent of a real tfel-check process sees of the value returned by main: its low 8 bits
}

std::string g_root;

struct H52 : hu::Harness {
  const char* property() const override { return "C52"; }
  bool first_use_run() override { return true; }
  hu::Plan generate(uint64_t seed, int tier, vsim::Config& cfg) override {
    hu::Rng r(seed); hu::Plan p;
    long nfiles = tier ? r.range(1, 12) : r.range(1, 6);
    long nj = r.chance(1, 5) ? 1 : r.range(2, tier ? 16 : 6);
    p.params = {nj, r.chance(1, 4), r.chance(1, 4), 0};
    if (r.chance(1, 80)) {
      // scale: hundreds of check files, every one failing on a comparison (no process involved): the exit status is a byte, the verdict is not
      static const long counts[] = {255, 256, 257, 512};
      nfiles = counts[r.range(0, 3)];
      for (long f = 0; f < nfiles; ++f) p.ops.push_back({f, f % 3, K_COMPARE, 0, 0, 0});
      cfg.strategy = int(r.range(0, 3)); cfg.sticky_num = 3; cfg.starve_thread = int(r.range(0, nj)); cfg.sig_linux_bias = 1;
      cfg.max_steps = 400000 + 4000 * nfiles;
      return p;
    }
    long ndirs = r.range(1, 3);
    if (r.chance(1, 3)) p.params[3] = r.range(1, (1 << ndirs) - 1);
    // a share of the plans with per-directory configurations is centred on the settings given on the command line: the only failure of the
    // whole tree is a failing command next to a passing comparison, in a directory that has its own configuration file
    const bool focused = p.params[3] != 0 && r.chance(1, 2);
    if (focused) {
      long d = 0; while (!((p.params[3] >> d) & 1)) ++d;
      p.ops.push_back({0, d, K_EXIT, r.range(1, 3), r.range(0, 14) << 1, 0});
      p.ops.push_back({0, d, K_COMPARE, 1, 0, 0});
    }
    for (long f = focused ? 1 : 0; f < nfiles; ++f) {
      long d = r.range(0, ndirs - 1), n = r.range(1, tier ? 4 : 3);
      for (long k = 0; k < n; ++k) {
        long w = r.range(0, 11), kind, a = 0, b = 0, c = 0;
        if (w < 5) { kind = K_EXIT; a = 0; } else if (w < 7) { kind = K_EXIT; a = r.range(1, 3); } else if (w < 8) { kind = K_SIGNAL; a = 9; } else if (w < 9) { kind = K_EXECFAIL; }
        else if (w < 11) { kind = K_OUTPUT; a = r.chance(3, 4); } else { kind = K_COMPARE; a = r.chance(3, 4) ? 1 : (r.chance(1, 2) ? 0 : r.range(2, 3)); }
        if (kind != K_COMPARE) { b = (r.range(0, 14) << 1) | (r.chance(1, 8) ? 1 : 0); if (kind == K_EXIT && r.chance(1, 30)) c = r.range(9, 12); }
        if (focused) { if (kind == K_COMPARE) a = 1; else { kind = K_EXIT; a = 0; b &= ~1L; } }
        p.ops.push_back({f, d, kind, a, b, c});
      }
    }
    cfg.strategy = int(r.range(0, 3)); cfg.sticky_num = int(r.range(1, 3)); cfg.starve_thread = int(r.range(0, nj)); cfg.sig_linux_bias = int(r.range(0, 1));
    cfg.max_steps = 200000 + 40000 * long(p.ops.size());
    cfg.sigchld_ignored = r.chance(1, 6) ? 1 : 0;   // tfel-check started by something that ignores SIGCHLD (the disposition is inherited)
    if (r.chance(1, 4)) { static const int rates[] = {7, 31, 101, 211}; cfg.alloc_rate = rates[r.range(0, 3)]; cfg.alloc_phase = int(r.range(0, 210)); cfg.max_steps *= 4; }   // a share of the runs: allocations of the code under test as scheduling points
    return p;
  }
  std::string describe(const hu::Plan& p) override {
    auto par = [&p](size_t i, long d) { return p.params.size() > i ? p.params[i] : d; };
    std::string s = "-j " + std::to_string(par(0, 1)) + (par(1, 0) ? " --discard-commands-failure=true" : " --discard-commands-failure=false") + (par(2, 0) ? " --synchronize-terminal-output" : "") + (par(3, 0) ? " tfel-check.config-in-directories-mask=" + std::to_string(par(3, 0)) : "") + " files:";
    long cur = -1; size_t n = 0;
    for (auto& o : p.ops) { if (o.size() < 6) continue; if (++n > 30) { s += " ..."; break; }
      if (o[0] != cur) { cur = o[0]; s += " " + dir_name(o[1]) + "/t" + std::to_string(o[0]) + ".check:"; }
      static const char* kn[] = {"exit", "sig", "execfail", "output", "compare"};
      s += std::string(" ") + kn[std::max<long>(0, std::min<long>(o[2], 4))] + (o[2] == K_EXECFAIL ? "" : std::to_string(o[3])) + ((o[2] != K_COMPARE && (o[4] & 1)) ? "!shall_fail" : "") + (o[5] > 0 && o[2] == K_EXIT ? "x" + std::to_string(std::min<long>(o[5], 12) * 12) : ""); }
    return s;
  }
  // one scenario = the reference run (-j 1, sequential schedule) then the explored run, in two scratch copies
  hu::Outcome run(const hu::Plan& plan, const vsim::Config& cfg0) override {
    hu::Outcome out;
    auto par = [&plan](size_t i, long d) { return plan.params.size() > i ? plan.params[i] : d; };
    const long nj = std::max<long>(1, std::min<long>(par(0, 1), 32));
    std::string cwd0; { char b[4096]; cwd0 = getcwd(b, sizeof b) ? b : "."; }
    int status[2] = {-1, -1}; std::vector<std::string> blocks[2]; std::string garbage[2];
    uint64_t hashes[2] = {0, 0};
    for (int pass = 0; pass < 2; ++pass) {
      const std::string root = g_root + (pass ? "/run" : "/ref");
      rm_rf(root);
      mkdir(root.c_str(), 0755);
      auto files = materialise(plan, root);
      if (chdir(root.c_str()) != 0) { out.cls = "harness-error"; out.detail = "chdir"; return out; }
      vsim::Config cfg = cfg0;
      if (pass == 0) { cfg = vsim::Config{}; cfg.replay = true; cfg.decisions.clear(); cfg.max_steps = cfg0.max_steps; }   // reference: every decision 0 = keep running the current thread
      vsim::set_fate_provider(provider);
      vsim::begin(cfg);
      try { status[pass] = run_tfel_check(root, pass ? nj : 1, par(1, 0) != 0, par(2, 0) != 0); }
      catch (std::exception& e) { status[pass] = -2; out.detail = e.what(); }
      hashes[pass] = vsim::end();
      if (chdir(cwd0.c_str()) != 0) {}
      std::string logtxt = slurp(root + "/tfel-check.log");
      for (size_t q; (q = logtxt.find(root)) != std::string::npos;) logtxt.replace(q, root.size(), "<ROOT>");   // the scratch path differs between the two passes
      blocks[pass] = blocks_of(logtxt, garbage[pass]);
      std::sort(blocks[pass].begin(), blocks[pass].end());
      if (pass == 0) { out.probes["ref_steps"] = vsim::nsteps(); }
    }
    auto fail = [&out](const char* c, const std::string& d) { if (out.cls == "ok") { out.cls = c; out.detail = d; } };
    size_t nfiles = 0; { std::set<long> ids; for (auto& o : plan.ops) if (o.size() >= 6) ids.insert(o[0]); nfiles = ids.size(); }
    if (status[0] < 0 || status[1] < 0) fail("tfel-check-threw", "tfel-check's main threw: " + out.detail);
    if (blocks[0].size() != nfiles) fail("reference-run-inconsistent", "the sequential reference run logged " + std::to_string(blocks[0].size()) + " blocks for " + std::to_string(nfiles) + " check files");
    if (status[1] != status[0]) fail("verdict-depends-on-schedule", "exit status " + std::to_string(status[1]) + " with -j " + std::to_string(nj) + " under this schedule, " + std::to_string(status[0]) + " for the sequential run");
    // plan-derived verdict, from the documented semantics (docs/web/tfel-check.md): a check file fails when one of its comparisons fails,
    // or when one of its commands fails and either --discard-commands-failure=false or the file declares no comparison.
    // Files using shall_fail are left to the differential oracle only.
    bool simple = true, anyfail = false;
    { std::map<long, std::vector<const std::vector<long>*>> byfile;
      for (auto& o : plan.ops) if (o.size() >= 6) byfile[o[0]].push_back(&o);
      for (auto& kv : byfile) {
        bool cmdfail = false, cmpfail = false, hascmp = false;
        for (auto po : kv.second) { auto& o = *po;
          if (o[2] != K_COMPARE && (o[4] & 1)) simple = false;
          if (o[2] == K_COMPARE) { hascmp = true; if (o[3] != 1) cmpfail = true; }
          else if ((o[2] == K_EXIT && (o[3] & 0xff) != 0) || o[2] == K_SIGNAL || o[2] == K_EXECFAIL || (o[2] == K_OUTPUT && o[3] == 0)) cmdfail = true; }
        if (cmpfail || (cmdfail && (par(1, 0) == 0 || !hascmp))) anyfail = true;
      } }
    if (simple && status[1] >= 0 && (status[1] != 0) != anyfail) fail("wrong-verdict", std::string("tfel-check exited with ") + std::to_string(status[1]) + " although " + (anyfail ? "at least one check fails" : "every check passes") + " (documented semantics)");
    if (!garbage[1].empty()) fail("log-corrupted", "text outside any block in tfel-check.log: " + garbage[1].substr(0, 120));
    if (blocks[1] != blocks[0]) {
      std::string d = "tfel-check.log holds " + std::to_string(blocks[1].size()) + " blocks, the sequential run " + std::to_string(blocks[0].size());
      for (size_t i = 0; i < std::min(blocks[0].size(), blocks[1].size()); ++i) if (blocks[0][i] != blocks[1][i]) { d += "; first differing block: [" + blocks[1][i].substr(0, 160) + "] vs [" + blocks[0][i].substr(0, 160) + "]"; break; }
      fail("log-blocks-differ", d);
    }
    out.probes[nj > 1 ? "runs_parallel" : "runs_j1"] = 1;
    out.probes["check_files"] = long(nfiles);
    if (par(3, 0)) out.probes["runs_with_a_per_directory_configuration_file"] = 1;
    if (cfg0.sigchld_ignored) out.probes["runs_started_with_sigchld_ignored"] = 1;
    size_t big = 0; for (auto& b : blocks[1]) if (b.size() > 8192) ++big; if (big) out.probes["blocks_over_8KiB"] = long(big);
    return out;
  }
};
}  // namespace

extern "C" __attribute__((used)) const char* __asan_default_options() { return "exitcode=77:detect_leaks=0:abort_on_error=0"; }
extern "C" __attribute__((used)) const char* __ubsan_default_options() { return "halt_on_error=1:exitcode=77:print_stacktrace=1"; }

int main(int argc, char** argv) {
  for (int i = 1; i + 1 < argc; ++i) if (!strcmp(argv[i], "--workdir")) g_root = argv[i + 1];
  if (g_root.empty()) { fprintf(stderr, "h52: --workdir required\n"); return 2; }
  mkdir(g_root.c_str(), 0755);
  { char b[32]; snprintf(b, sizeof b, "/p%07ld", long(getpid())); g_root += b; }   // private to this process; fixed length: the path is written in the log, and its length moves the
                                                                                  // points at which the 8 KiB stream buffer is flushed (scheduling points)
  mkdir(g_root.c_str(), 0755);
  atexit([] { if (!vsim::in_forked_child()) rm_rf(g_root); });
  // the one-off registration of mfront's DSLs and interfaces happens here, outside any simulated run: no run then depends on
  // whether it is the first one of its process
  mfront::verifInitDSLsOnce(); mfront::verifInitInterfacesOnce();
  H52 h; return hu::harness_main(argc, argv, h);
}
