// C29 — ThreadPool runs every task exactly once and wait() is complete.
// Real code: /repo/src/System/ThreadPool.cxx, ThreadedTaskResult.cxx, the header templates, libstdc++'s
// std::thread / packaged_task / future.  Simulated: pthread mutex / condvar / create / join and the scheduler.
#include <chrono>
#include <deque>
#include <future>
#include <stdexcept>
#include <thread>
#include "TFEL/System/ThreadPool.hxx"
#include "../../sim/hutil.h"

using tfel::system::ThreadPool;
using tfel::system::ThreadedTaskResult;

namespace {
enum { E_SUBMIT_BEGIN = 1001, E_SUBMIT_END, E_BODY_BEGIN, E_BODY_END, E_WAIT_BEGIN, E_WAIT_END, E_DESTROY_BEGIN, E_DESTROY_END, E_FUTURE_NOT_READY };
enum { OP_ADD = 0, OP_WAIT = 1, OP_YIELD = 2 };
enum { FL_THROW = 1, FL_VOID = 2, FL_FOLLOWUP = 4 };
const long FOLLOW = 1000000;

struct TaskTag : std::runtime_error { long id; explicit TaskTag(long i) : std::runtime_error("task-exception"), id(i) {} };

struct TaskRec {
  long id = -1; int flags = 0; int yields = 0; bool submitted = false; uint64_t sub_end_seq = 0;
  std::future<ThreadedTaskResult<long>> fl;
  std::future<ThreadedTaskResult<void>> fv;
};

struct State {
  ThreadPool* pool = nullptr;
  std::deque<TaskRec> tasks;          // never reallocates elements
  std::map<long, TaskRec*> by_id;
  std::map<long, int> body_runs;
  std::vector<std::string> online;    // online invariant failures
  std::set<uint64_t> abs;
  long submitted = 0, started = 0, ended = 0; bool stopping = false;
  bool follow_ok = false;
};
State* S = nullptr;

void sample_abs() {
  int sc[8]; vsim::state_counts(sc);
  long q = S->submitted - S->started; if (q > 3) q = 3; if (q < 0) q = 0;
  long w = S->started - S->ended; if (w > 4) w = 4;
  uint64_t a = uint64_t(q) | (uint64_t(w) << 4) | (uint64_t(S->stopping) << 8) | (uint64_t(std::min(sc[1], 3)) << 12) | (uint64_t(std::min(sc[2], 7)) << 16) | (uint64_t(std::min(sc[3], 3)) << 20) | (uint64_t(std::min(sc[0], 3)) << 24);
  S->abs.insert(a);
}
uint64_t ev(int k, long a = 0, long b = 0) { auto s = vsim::event(k, a, b); sample_abs(); return s; }

void submit(long id, int flags, int yields);

long body(long id, int flags, int yields) {
  vsim::Unmonitored harness_code;   // the oracle's own tables are not the code under test (race variant)
  ev(E_BODY_BEGIN, id, vsim::self_id());
  S->started++;
  if (++S->body_runs[id] > 1) S->online.push_back("I1 task " + std::to_string(id) + " body started twice");
  if (!S->by_id.count(id) ) S->online.push_back("I2 body of a task that was never submitted: " + std::to_string(id));
  for (int i = 0; i < yields; ++i) vsim::yield();
  if ((flags & FL_FOLLOWUP) && S->follow_ok && id < FOLLOW) submit(FOLLOW + id, flags & FL_VOID, 1);
  S->ended++;
  ev(E_BODY_END, id, vsim::self_id());
  if (flags & FL_THROW) throw TaskTag(id);
  return 7000 + id;
}

void submit(long id, int flags, int yields) {
  S->tasks.emplace_back(); TaskRec& r = S->tasks.back(); r.id = id; r.flags = flags; r.yields = yields;
  S->by_id[id] = &r;
  ev(E_SUBMIT_BEGIN, id, vsim::self_id());
  if (flags & FL_VOID) { std::future<ThreadedTaskResult<void>> f; { vsim::Monitored m; f = S->pool->addTask([id, flags, yields] { body(id, flags, yields); }); } r.fv = std::move(f); }
  else { std::future<ThreadedTaskResult<long>> f; { vsim::Monitored m; f = S->pool->addTask([id, flags, yields] { return body(id, flags, yields); }); } r.fl = std::move(f); }
  S->submitted++;
  r.sub_end_seq = ev(E_SUBMIT_END, id, vsim::self_id());
  r.submitted = true;
}

template <class F> bool ready(F& f) { return f.valid() && f.wait_for(std::chrono::seconds(0)) == std::future_status::ready; }
bool task_ready(TaskRec& r) { return (r.flags & FL_VOID) ? ready(r.fv) : ready(r.fl); }

void do_wait(int c) {
  auto wb = ev(E_WAIT_BEGIN, c);
  { vsim::Monitored m; S->pool->wait(); }
  ev(E_WAIT_END, c, long(wb));
  // I5 (readiness part): the future of every task submitted before wait() began is ready now
  for (auto& r : S->tasks)
    if (r.submitted && r.sub_end_seq < wb && !task_ready(r)) { ev(E_FUTURE_NOT_READY, r.id, c); S->online.push_back("I5 future of task " + std::to_string(r.id) + " not ready when wait() returned"); }
}

void client(int c, const hu::Plan* plan) {
  vsim::Unmonitored harness_code;
  for (size_t i = 0; i < plan->ops.size(); ++i) {
    auto& op = plan->ops[i];
    if (op.size() < 4 || op[0] != c) continue;
    try {
      if (op[1] == OP_ADD) submit(long(i), int(op[3]) & 7, int(std::min<long>(std::max<long>(op[2], 0), 8)));
      else if (op[1] == OP_WAIT) do_wait(c);
      else vsim::yield();
    } catch (std::exception& e) {
      S->online.push_back(std::string("unexpected exception in client: ") + e.what());
    }
  }
}

struct H29 : hu::Harness {
  const char* property() const override { return "C29"; }

  hu::Plan generate(uint64_t seed, int tier, vsim::Config& cfg) override {
    hu::Rng r(seed);
    hu::Plan p;
    long big = (tier >= 1 && r.chance(1, 6)) ? 1 : 0;
    long nw = tier >= 1 ? r.range(1, 16) : r.range(1, 4);
    long nc = r.chance(1, 2) ? 1 : r.range(2, 3);
    long fw = r.chance(1, 2);
    p.params = {nw, nc, fw};
    for (long c = 0; c < nc; ++c) {
      long nops = big ? r.range(50, 2000 / nc) : r.range(0, 6);
      long adds = 0, maxadds = big ? 100000 : 4;
      for (long k = 0; k < nops; ++k) {
        long w = r.range(0, 9);
        if (w < 6 && adds < maxadds) {
          int fl = 0; if (r.chance(1, 6)) fl |= FL_THROW; if (r.chance(1, 4)) fl |= FL_VOID; if (r.chance(1, 6)) fl |= FL_FOLLOWUP;
          p.ops.push_back({c, OP_ADD, big ? r.range(0, 1) : r.range(0, 3), fl}); ++adds;
        } else if (w < 8) p.ops.push_back({c, OP_WAIT, 0, 0});
        else p.ops.push_back({c, OP_YIELD, 0, 0});
      }
    }
    // interleave the clients' ops in the list (order inside one client is what matters)
    for (size_t i = p.ops.size(); i > 1; --i) { size_t j = size_t(r.range(0, long(i) - 1)); if (p.ops[i - 1][0] != p.ops[j][0]) std::swap(p.ops[i - 1], p.ops[j]); }
    // swarm: strategy and faults
    cfg.strategy = int(r.range(0, 3));
    cfg.sticky_num = int(r.range(1, 3));
    cfg.starve_thread = int(r.range(0, nw + nc - 1));
    cfg.max_steps = 400 + 800 * long(p.ops.size()) * (nw + 2);
    long nsp = r.chance(1, 2) ? 0 : r.range(1, 3);
    for (long k = 0; k < nsp; ++k) p.faults.push_back({vsim::F_SPURIOUS, r.range(0, 12), r.range(0, 6)});
    return p;
  }

  std::string describe(const hu::Plan& p) override {
    std::string s = "workers=" + std::to_string(p.params.size() > 0 ? p.params[0] : 1) + " clients=" + std::to_string(p.params.size() > 1 ? p.params[1] : 1) +
                    " final_wait=" + std::to_string(p.params.size() > 2 ? p.params[2] : 0) + " ops:";
    size_t shown = 0;
    for (size_t i = 0; i < p.ops.size() && shown < 24; ++i, ++shown) {
      auto& o = p.ops[i]; if (o.size() < 4) continue;
      s += " c" + std::to_string(o[0]) + ":";
      if (o[1] == OP_ADD) { s += "add#" + std::to_string(i) + "(y" + std::to_string(o[2]); if (o[3] & FL_THROW) s += ",throws"; if (o[3] & FL_VOID) s += ",void"; if (o[3] & FL_FOLLOWUP) s += ",followup"; s += ")"; }
      else if (o[1] == OP_WAIT) s += "wait"; else s += "yield";
    }
    if (p.ops.size() > shown) s += " ...(" + std::to_string(p.ops.size()) + " ops)";
    for (auto& f : p.faults) if (f.size() >= 3) s += " fault:spurious(condwait#" + std::to_string(f[1]) + ",+" + std::to_string(f[2]) + ")";
    return s;
  }

  hu::Outcome run(const hu::Plan& plan, const vsim::Config& cfg) override {
    hu::Outcome out;
    State st; S = &st;
    long nw = plan.params.size() > 0 ? std::max<long>(1, std::min<long>(plan.params[0], 64)) : 1;
    long nc = plan.params.size() > 1 ? std::max<long>(1, std::min<long>(plan.params[1], 8)) : 1;
    long fw = plan.params.size() > 2 ? plan.params[2] : 0;
    st.follow_ok = fw != 0;
    uint64_t destroy_begin = 0, destroy_end = 0;
    vsim::begin(cfg);
    {
      std::unique_ptr<ThreadPool> pool;
      { vsim::Monitored m; pool = std::make_unique<ThreadPool>(size_t(nw)); }
      st.pool = pool.get();
      std::vector<std::thread> cl;
      for (long c = 1; c < nc; ++c) cl.emplace_back(client, int(c), &plan);
      client(0, &plan);
      for (auto& t : cl) t.join();
      if (fw) do_wait(0);
      st.stopping = true;
      destroy_begin = ev(E_DESTROY_BEGIN);
      { vsim::Monitored m; pool.reset(); }
      destroy_end = ev(E_DESTROY_END);
      st.pool = nullptr;
    }
    vsim::end();
    // ---------------- history oracle
    std::map<long, uint64_t> sub_end, b_begin, b_end; std::map<long, int> nbegin;
    auto& evs = vsim::events();
    for (auto& e : evs) {
      if (e.kind == E_SUBMIT_END) sub_end[e.a] = e.seq;
      if (e.kind == E_BODY_BEGIN) { b_begin[e.a] = e.seq; nbegin[e.a]++; }
      if (e.kind == E_BODY_END) b_end[e.a] = e.seq;
    }
    auto fail = [&out](const std::string& cls, const std::string& d) { if (out.cls == "ok") { out.cls = cls; out.detail = d; } };
    for (auto& s : st.online) fail(s.substr(0, 2) == "I1" ? "I1-task-ran-twice" : s.substr(0, 2) == "I2" ? "I2-unsubmitted-task-ran" : s.substr(0, 2) == "I5" ? "I5-future-not-ready" : "unexpected-exception", s);
    for (auto& e : evs) {
      if (e.kind == E_WAIT_END) {
        uint64_t wb = uint64_t(e.b);
        for (auto& kv : sub_end) if (kv.second < wb) {
          auto it = b_end.find(kv.first);
          if (it == b_end.end() || it->second > e.seq) fail("I3-wait-returned-early", "wait() of client " + std::to_string(e.a) + " returned at seq " + std::to_string(e.seq) + " but task " + std::to_string(kv.first) + " (submitted at seq " + std::to_string(kv.second) + " before wait began at " + std::to_string(wb) + ") had not finished");
        }
      }
    }
    for (auto& kv : sub_end) if (kv.second < destroy_begin) {
      auto it = b_end.find(kv.first);
      if (it == b_end.end() || it->second > destroy_end) fail("I4-destructor-dropped-task", "task " + std::to_string(kv.first) + " submitted before destruction never completed");
    }
    for (auto& r : st.tasks) {
      if (!r.submitted) continue;
      if (nbegin[r.id] != 1) fail(nbegin[r.id] == 0 ? "I6-task-never-ran" : "I1-task-ran-twice", "task " + std::to_string(r.id) + " ran " + std::to_string(nbegin[r.id]) + " times");
      if (!task_ready(r)) { fail("I5-future-not-ready", "future of task " + std::to_string(r.id) + " not ready after the pool was destroyed"); continue; }
      try {
        if (r.flags & FL_VOID) {
          auto res = r.fv.get();
          if (bool(res) == bool(r.flags & FL_THROW)) fail("I5-future-wrong-content", "void task " + std::to_string(r.id) + ": exception flag mismatch");
          if (!res) { try { res.rethrow(); } catch (TaskTag& t) { if (t.id != r.id) fail("I5-future-wrong-content", "exception of another task"); } catch (...) { fail("I5-future-wrong-content", "task " + std::to_string(r.id) + ": unexpected exception type stored"); } }
        } else {
          auto res = r.fl.get();
          if (bool(res) == bool(r.flags & FL_THROW)) fail("I5-future-wrong-content", "task " + std::to_string(r.id) + ": exception flag mismatch");
          if (res) { if (*res != 7000 + r.id) fail("I5-future-wrong-content", "task " + std::to_string(r.id) + " future holds " + std::to_string(*res)); }
          else { try { res.rethrow(); } catch (TaskTag& t) { if (t.id != r.id) fail("I5-future-wrong-content", "exception of another task"); } catch (...) { fail("I5-future-wrong-content", "task " + std::to_string(r.id) + ": unexpected exception type stored"); } }
        }
      } catch (std::exception& e) { fail("I5-future-throws", std::string("future::get threw: ") + e.what()); }
    }
    // reach probes
    bool multi = nc > 1;
    out.probes[multi ? "runs_multi_client" : "runs_single_client"] = 1;
    if (vsim::counter("spurious_wakeup_fired")) out.probes["runs_with_spurious_wakeup"] = 1;
    if (destroy_begin) { long pending = 0; for (auto& kv : sub_end) { auto it = b_begin.find(kv.first); if (kv.second < destroy_begin && (it == b_begin.end() || it->second > destroy_begin)) ++pending; } if (pending) out.probes["destructor_entered_with_queued_tasks"] = 1; }
    for (auto& e : evs) if (e.kind == 7 && e.b > 1) { out.probes["notify_one_had_several_waiters"] = 1; break; }
    out.abstract_states.assign(st.abs.begin(), st.abs.end());
    S = nullptr;
    return out;
  }
};
}  // namespace

extern "C" __attribute__((used)) const char* __asan_default_options() { return "exitcode=77:detect_leaks=0:abort_on_error=0"; }
extern "C" __attribute__((used)) const char* __ubsan_default_options() { return "halt_on_error=1:exitcode=77:print_stacktrace=1"; }

int main(int argc, char** argv) { H29 h; return hu::harness_main(argc, argv, h); }
