/* C46 — forwarding shim for the named-semaphore API.
 * Every sem_* call of the process is sent to the simulator over the inherited socket VSIM_SEM_FD and blocks until the
 * simulator answers: the simulator owns the semaphore (its count survives process exits) and decides which process
 * proceeds.  Linked statically into the quick-tier driver and built as an LD_PRELOAD library for the real mfront. */
#define _GNU_SOURCE
#include <errno.h>
#include <fcntl.h>
#include <semaphore.h>
#include <stdarg.h>
#include <stdio.h>
#include <stdlib.h>
#include <string.h>
#include <time.h>
#include <unistd.h>
#include <dlfcn.h>
#include <sys/syscall.h>
#include <sys/uio.h>

static int vsim_fd(void) {
  static int fd = -2;
  if (fd == -2) { const char* e = getenv("VSIM_SEM_FD"); fd = e ? atoi(e) : -1; }
  return fd;
}
static sem_t fake_sem;   /* the handle returned to the caller; never used as a real semaphore */

/* send one request line, wait for the one-byte answer ('K' ok, 'E' error) */
static int request(const char* line) {
  int fd = vsim_fd();
  if (fd < 0) { errno = ENOSYS; return -1; }
  size_t n = strlen(line), off = 0;
  while (off < n) { ssize_t w = syscall(SYS_write, fd, line + off, n - off); if (w < 0) { if (errno == EINTR) continue; return -1; } off += (size_t)w; }
  char c = 0;
  for (;;) { ssize_t r = read(fd, &c, 1); if (r == 1) break; if (r == 0) _exit(97); if (errno != EINTR) return -1; }
  if (c == 'K') return 0;
  if (c == 'T') { errno = ETIMEDOUT; return -1; }   /* the simulator let the timeout of a timed wait fire */
  if (c == 'A') { errno = EAGAIN; return -1; }
  if (c == 'I') { errno = EINTR; return -1; }       /* the simulator had the blocked wait interrupted by a signal */
  errno = EINVAL; return -1;
}

sem_t* sem_open(const char* name, int oflag, ...) {
  unsigned value = 0; mode_t mode = 0;
  if (oflag & O_CREAT) { va_list ap; va_start(ap, oflag); mode = va_arg(ap, mode_t); value = va_arg(ap, unsigned); va_end(ap); }
  char b[256]; snprintf(b, sizeof b, "O %s %d %u\n", name, (oflag & O_CREAT) ? 1 : 0, value); (void)mode;
  if (request(b) != 0) return SEM_FAILED;
  return &fake_sem;
}
int sem_wait(sem_t* s) { (void)s; return request("W\n"); }
int sem_trywait(sem_t* s) { (void)s; return request("T\n"); }
/* timed waits: the simulator owns the clock; it may grant the semaphore or let the timeout fire at any time once the caller is blocked */
int sem_timedwait(sem_t* s, const struct timespec* t) { (void)s; (void)t; return request("X\n"); }
int sem_clockwait(sem_t* s, clockid_t c, const struct timespec* t) { (void)s; (void)c; (void)t; return request("X\n"); }
int sem_post(sem_t* s) { (void)s; return request("P\n"); }
int sem_close(sem_t* s) { (void)s; return request("C\n"); }
int sem_unlink(const char* name) { char b[256]; snprintf(b, sizeof b, "U %s\n", name); return request(b); }
/* the simulator answers 'V' followed by the 32-bit value of the semaphore object this process opened */
int sem_getvalue(sem_t* s, int* v) {
  (void)s; int fd = vsim_fd(); if (fd < 0) { errno = ENOSYS; return -1; }
  const char* line = "G\n"; size_t off = 0;
  while (off < 2) { ssize_t w = syscall(SYS_write, fd, line + off, 2 - off); if (w < 0) { if (errno == EINTR) continue; return -1; } off += (size_t)w; }
  unsigned char b[5]; size_t got = 0;
  while (got < 5) { ssize_t r = read(fd, b + got, 5 - got); if (r > 0) { got += (size_t)r; if (b[0] != 'V') break; } else if (r == 0) _exit(97); else if (errno != EINTR) return -1; }
  if (b[0] != 'V') { errno = EINVAL; return -1; }
  int val; memcpy(&val, b + 1, 4); if (v) *v = val;
  return 0;
}

/* markers used by the quick-tier driver: section entry / exit and intermediate steps (each is a scheduling point) */
void vsim_marker(const char* what) { char b[64]; snprintf(b, sizeof b, "M %s\n", what); request(b); }

/* The resource the lock protects: every access of the process to src/targets.lst (open for reading or writing, write, close = flush) is
 * announced to the simulator BEFORE it is performed; the simulator checks that the process holds the semaphore at that instant, and each
 * announcement is a scheduling point inside the protected section of the real mfront. */
static int reg_fd = -1; static FILE* reg_file = NULL;
static int is_registry(const char* path) { size_t n = path ? strlen(path) : 0; return n >= 11 && strcmp(path + n - 11, "targets.lst") == 0; }
static FILE* open_common(const char* sym, const char* path, const char* mode) {
  typedef FILE* (*fn_t)(const char*, const char*);
  fn_t real_fn = (fn_t)dlsym(RTLD_NEXT, sym);
  const int reg = vsim_fd() >= 0 && is_registry(path);
  if (reg) vsim_marker((mode && (strchr(mode, 'w') || strchr(mode, 'a') || strchr(mode, '+'))) ? "REGOPENW" : "REGOPENR");
  FILE* f = real_fn(path, mode);
  if (reg && f) { reg_file = f; reg_fd = fileno(f); }
  return f;
}
FILE* fopen(const char* path, const char* mode) { return open_common("fopen", path, mode); }
FILE* fopen64(const char* path, const char* mode) { return open_common("fopen64", path, mode); }
int fclose(FILE* f) {
  typedef int (*fn_t)(FILE*);
  static fn_t real_fn; if (!real_fn) real_fn = (fn_t)dlsym(RTLD_NEXT, "fclose");
  if (f && f == reg_file) { vsim_marker("REGCLOSE"); reg_file = NULL; reg_fd = -1; }
  return real_fn(f);
}
ssize_t write(int fd, const void* b, size_t n) {
  if (fd >= 0 && fd == reg_fd) vsim_marker("REGWRITE");
  return syscall(SYS_write, fd, b, n);
}
ssize_t writev(int fd, const struct iovec* v, int c) {
  if (fd >= 0 && fd == reg_fd) vsim_marker("REGWRITE");
  return syscall(SYS_writev, fd, v, c);
}

/* POSIX shared-memory objects are kernel state that outlives the processes: inside the simulation their names are prefixed with a token of
 * the simulator process, which removes them after every history (no state leaks from one history into the next) */
#include <sys/mman.h>
static const char* shm_name(const char* name, char* b, size_t n) {
  const char* t = getenv("VSIM_SHM_TOKEN");
  if (!t || !name) return name;
  snprintf(b, n, "/%s%s", t, name[0] == '/' ? name + 1 : name);
  return b;
}
int shm_open(const char* name, int oflag, mode_t mode) {
  typedef int (*fn_t)(const char*, int, mode_t);
  static fn_t real_fn; if (!real_fn) real_fn = (fn_t)dlsym(RTLD_NEXT, "shm_open");
  char b[300]; return real_fn(shm_name(name, b, sizeof b), oflag, mode);
}
int shm_unlink(const char* name) {
  typedef int (*fn_t)(const char*);
  static fn_t real_fn; if (!real_fn) real_fn = (fn_t)dlsym(RTLD_NEXT, "shm_unlink");
  char b[300]; return real_fn(shm_name(name, b, sizeof b));
}
