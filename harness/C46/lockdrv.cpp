// C46 quick-tier driver: one simulated "mfront run".  Real code: mfront/src/MFrontLock.cxx from /repo (singleton created on
// first use, RAII guard, static destructor at exit).  The script (argv) is a list of tokens:
//   S<k>  a lock-protected section (MFrontLockGuard) with k intermediate steps inside
//   N<k>  k steps outside any section
// Every semaphore call and every step is a request to the simulator (see semshim.c).
#include <cstdlib>
#include <cstring>
#include "MFront/MFrontLock.hxx"
extern "C" void vsim_marker(const char*);
int main(int argc, char** argv) {
  vsim_marker("START");
  for (int i = 1; i < argc; ++i) {
    const int k = atoi(argv[i] + 1);
    if (argv[i][0] == 'S') {
      mfront::MFrontLockGuard guard;
      vsim_marker("ENTER");
      for (int j = 0; j < k; ++j) vsim_marker("STEP");
      vsim_marker("EXIT");
    } else {
      for (int j = 0; j < k; ++j) vsim_marker("STEP");
    }
  }
  vsim_marker("END");
  return 0;   // static destructors (among which ~MFrontLock) run now; the simulator sees the end of the process as EOF
}
